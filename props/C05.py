from props.common import TRUSTED as _T
from vlib.runner import Obl

PROPERTY = "C05"
EXPLANATION = (
    "A-level: real Paragraph/Header/Span construction and successive appends on the lxml model with symbolic strings. "
    "C05 (paragraph text round-trips, white-space normal form): the real white-space pipeline of paragraph.py (_sub_merge_spaces, _merge_spaces, "
    "_sub_replace_tabs_lb, _replace_tabs_lb, _unformatted) on symbolic strings with token classes for text:s/tab/line-break; oracle: decode(tokens) == s and an "
    "independent ODF 1.2 6.1.2 collapsing interpreter (consumer reading: an element ends a white-space run) returns s again. "
)
OUTSIDE = ("strings longer than 5 characters; CR (not encoded by odfdo, outside the property's alphabet); XML escaping by lxml; the strict reading of 6.1.2 "
           "(differs on TAB SPACE x; reported as a NOTE, identical to what LibreOffice writes)")
ASSUMPTIONS = ["alphabet {a, space, tab, LF, <, e-acute} (len <= 4) / {a, space, tab, LF} (len 5)"]
TRUSTED = _T
_ENC = ["src/odfdo/paragraph.py:Paragraph._sub_merge_spaces,_merge_spaces,_sub_replace_tabs_lb,_replace_tabs_lb,_unformatted"]
_STUB = ["h_ws.S/T/L: token classes replacing paragraph_base.Spacer/Tab/LineBreak (so Spacer(len(item)) stays symbolic)"]


def _o(fn, secs, bounds, tier="quick"):
    return Obl(name=fn, module="h_ws", func=fn, timeout=max(60, secs * 4), replay="r_h_ws:" + fn, tier=tier,
               weight=secs, bounds=bounds, encodes=_ENC, stubs=_STUB)


OBLIGATIONS = [
    _o("ws_roundtrip", 70, "len <= 4 over {a, space, tab, LF, <, e-acute}"),
    _o("ws_roundtrip5", 50, "len == 5 over {a, space, tab, LF}"),
    _o("ws_tokens_wellformed", 13, "len <= 4 over {a, space, tab, LF}"),
    _o("unformatted_ok", 4, "len <= 4 over {a, space, tab, LF}"),
]


_AENC = ["src/odfdo/paragraph.py:Paragraph.__init__,append,append_plain_text,_expand_spaces,_merge_spaces,_replace_tabs_lb,_unformatted,Span",
         "src/odfdo/paragraph_base.py:Spacer,Tab,LineBreak,ParagraphBase.inner_text/_text_tail", "src/odfdo/header.py:Header.__init__",
         "src/odfdo/element.py:Element.__append,_add_text,delete,children,xpath,text,tail"]
_ASTUB = ["/verif/shadow/lxml (symdom): pure-Python model of lxml.etree, validated against the repository's own tests (bin/symdom_validate)",
          "symsupport.SymEText/ETextShim: symbolic-string re-basing of odfdo.element.EText", "uncached xpath_compile"]


def _a(fn, secs, bounds, tier="quick"):
    return Obl(name=fn, module="h_para", func=fn, timeout=max(120, secs * 4), replay="r_h_para:" + fn, tier=tier, shadow=True,
               weight=secs, bounds=bounds, encodes=_AENC, stubs=_ASTUB)


OBLIGATIONS += [
    _a("para_one", 10, "Paragraph(s), len <= 3 over {a, space, tab, LF}"),
    _a("span_one", 10, "Span(s), len <= 3 over {a, space, tab, LF}"),
    _a("header_one", 10, "Header(1, s), len <= 3 over {a, space, tab, LF}"),
    _a("para_nbsp", 15, "Paragraph(s), len <= 3 over {a, space, NO-BREAK SPACE}"),
    _a("para_two_appends", 125, "Paragraph(s1) then append_plain_text(s2), len <= 2 each"),
    _a("header_two_appends", 145, "Header(1, s1) then append_plain_text(s2), len <= 2 each"),
    _a("span_two_appends", 135, "Span(s1) then append_plain_text(s2), len <= 2 each"),
    _a("para_unformatted_append", 126, "Paragraph(s1) then append(s2, formatted=False), len <= 2 each", "thorough"),
    _a("para_three_appends", 225, "three pieces, len <= 2, 1, 1", "thorough"),
]
