from props.common import TRUSTED as _T
from vlib.runner import Obl

PROPERTY = "C05"
EXPLANATION = (
    "C05 (paragraph text round-trips, white-space normal form): the real white-space pipeline of paragraph.py (_sub_merge_spaces, _merge_spaces, "
    "_sub_replace_tabs_lb, _replace_tabs_lb, _unformatted) on symbolic strings with token classes for text:s/tab/line-break; oracle: decode(tokens) == s and an "
    "independent ODF 1.2 6.1.2 collapsing interpreter (consumer reading: an element ends a white-space run) returns s again. "
)
OUTSIDE = ("strings longer than 5 characters; CR (not encoded by odfdo, outside the property's alphabet); XML escaping by lxml; the strict reading of 6.1.2 "
           "(differs on TAB SPACE x; reported as a NOTE, identical to what LibreOffice writes)")
ASSUMPTIONS = ["alphabet {a, space, tab, LF, <, e-acute} (len <= 4) / {a, space, tab, LF} (len 5)"]
TRUSTED = _T
_ENC = ["src/odfdo/paragraph.py:Paragraph._sub_merge_spaces,_merge_spaces,_sub_replace_tabs_lb,_replace_tabs_lb,_unformatted"]
_STUB = ["h_ws.S/T/L: token classes replacing paragraph_base.Spacer/Tab/LineBreak (so Spacer(len(item)) stays symbolic)"]


def _o(fn, secs, bounds, tier="quick"):
    return Obl(name=fn, module="h_ws", func=fn, timeout=max(60, secs * 4), replay="r_h_ws:" + fn, tier=tier,
               weight=secs, bounds=bounds, encodes=_ENC, stubs=_STUB)


OBLIGATIONS = [
    _o("ws_roundtrip", 70, "len <= 4 over {a, space, tab, LF, <, e-acute}"),
    _o("ws_roundtrip5", 50, "len == 5 over {a, space, tab, LF}"),
    _o("ws_tokens_wellformed", 13, "len <= 4 over {a, space, tab, LF}"),
    _o("unformatted_ok", 4, "len <= 4 over {a, space, tab, LF}"),
]
