from vlib.runner import Obl
from props.common import KT_ENCODES, KT_STUBS, vault_obligations, krow_obligations, ktab_obligations, TRUSTED as _T

PROPERTY = "C10"
EXPLANATION = (
    "C10 (clone independence): frame conditions - after any vault operation a second vault built from copies of the same items "
    "is unchanged, the caller's item is neither inserted nor modified when clone=True, and map lists handed out earlier are not "
    "mutated except by the documented in-place append at the end. "
    "Above the vault: the real Row.clone / Cell.clone (cached positions included), XmlPart.clone and Document.clone on a real Document over an in-memory container: equal at birth whatever was edited since the parts were loaded (serialize() included), cloning never modifies the original, independent afterwards. "
)
OUTSIDE = "Container.clone on zip/folder containers (zip loading, lazily loaded parts: file I/O, not encodable - the repaired defect dda2d6b was confirmed concretely only); Document.clone and XmlPart.clone are covered on the in-memory container"
ASSUMPTIONS = ["pre-states are run-length encodings with repeats >= 1 whose maps equal make_cache_map(XML)"]
TRUSTED = _T
OBLIGATIONS = vault_obligations(10) + krow_obligations(10) + ktab_obligations(10, 40, 'nr')


def _c(fn, secs, bounds):
    return Obl(name=fn, module="h_kclone", func=fn, timeout=max(90, secs * 4), replay="r_h_kclone:" + fn, weight=secs, bounds=bounds,
               encodes=["src/odfdo/row.py:Row.clone,Row.repeated (setter)", "src/odfdo/table.py:Table.{rows,traverse,append_row,set_cell}", KT_ENCODES[2]],
               stubs=KT_STUBS + ["Element.clone re-pointed to the node-level deep copy of the typed-element layer (the real Row.clone runs on top of it)"])


OBLIGATIONS += [
    _c("kclone_row_from_traverse", 8, "row-runs in 1..2, plain cells; the k-th row of table.rows is cloned, the clone put in another table, repeated n >= 2 (unbounded) and edited"),
    _c("kclone_row_original_edit", 31, "row of 2 cell-runs, unbounded repeats; original edited after cloning"),
    _c("kclone_table", 43, "tall template, unbounded row-runs; set_cell on either twin"),
]


# A-level: the real Row/Cell classes (string-valued repeat accessors, Cell.clone) on the lxml model
for _fn in ['arow_get_clone']:
    _secs = {'arow_set': 255, 'arow_insert': 235, 'arow_delete': 35, 'arow_get_clone': 40}[_fn]
    OBLIGATIONS.append(Obl(name=_fn, module="h_arow", func=_fn, shadow=True, timeout=_secs * 4, replay="r_h_arow:" + _fn, weight=_secs,
                           tier="quick" if _secs < 100 else "thorough",
                           bounds="real Row of two cell-runs with repeats in 1..3, positions <= 7, inserted repeat <= 3, probe <= 10",
                           encodes=["src/odfdo/row.py:Row (all methods used, incl. repeated accessors)", "src/odfdo/cell.py:Cell.__init__,repeated,_set_repeated,clone,get_value,set_value",
                                    "src/odfdo/element.py:Element.insert,delete,index,clone,_get_element_idx2,elements_repeated_sequence", "src/odfdo/element_cached.py (all)"],
                           stubs=["/verif/shadow/lxml (symdom)"]))

OBLIGATIONS.append(Obl(name="acell_clone", module="h_arow", func="acell_clone", shadow=True, timeout=200, replay="r_h_arow:acell_clone", weight=8,
                       bounds="real Cell(5, repeated 1..3) with cached position x, y in 0..3 or None (symbolic), cloned, one twin edited; the row holding it cloned",
                       encodes=["src/odfdo/cell.py:Cell.clone,set_value,repeated", "src/odfdo/row.py:Row.clone,append_cell", "src/odfdo/element.py:Element.clone"], stubs=["/verif/shadow/lxml (symdom)"]))

for _fn, _secs, _b in (("meta_clone", 26, "Meta part: explicit generator 'G'+s (s <= 2 printable ASCII) set or not before cloning, set_generator_default on both twins, title edited on either"),
                       ("content_clone", 15, "Content part with one paragraph; a paragraph appended to either twin")):
    OBLIGATIONS.append(Obl(name=_fn, module="h_partclone", func=_fn, shadow=True, timeout=300, replay="r_h_partclone:" + _fn, weight=_secs, bounds=_b,
                           encodes=["src/odfdo/xmlpart.py:XmlPart.clone,root,body", "src/odfdo/container.py:Container.clone", "src/odfdo/meta.py:Meta.generator,set_generator_default,title"],
                           stubs=["/verif/shadow/lxml (symdom)", "memdoc.MemContainer: dict-backed subclass of Container handed to Document(container)"]))

for _m in range(4):
    OBLIGATIONS.append(Obl(name=f"doc_clone_{_m}", module="h_partclone", func="doc_clone", shadow=True, timeout=300, env={"VERIF_MASK": str(_m)}, extra={"mask": _m},
                           replay="r_h_partclone:doc_clone", weight=30,
                           bounds=("whole Document over the in-memory container: any subset (symbolic) of {body edited, style inserted, title set, binary part added with its manifest entry} "
                                   f"since the parts were loaded; a stored binary part {'deleted' if _m & 1 else 'kept'}; afterwards the {'clone' if _m & 2 else 'original'} is edited (body, meta, manifest, a new part)"),
                           encodes=["src/odfdo/document.py:Document.clone,get_part,insert_style,_add_binary_part,del_part", "src/odfdo/container.py:Container.clone (in-memory branch)",
                                    "src/odfdo/xmlpart.py:XmlPart.root,serialize"],
                           stubs=["/verif/shadow/lxml (symdom)", "memdoc.MemContainer: dict-backed subclass of Container handed to Document(container)"]))
