from vlib.runner import Obl
from props.common import KT_ENCODES, KT_STUBS, vault_obligations, krow_obligations, ktab_obligations, TRUSTED as _T

PROPERTY = "C10"
EXPLANATION = (
    "C10 (clone independence): frame conditions - after any vault operation a second vault built from copies of the same items "
    "is unchanged, the caller's item is neither inserted nor modified when clone=True, and map lists handed out earlier are not "
    "mutated except by the documented in-place append at the end. "
)
OUTSIDE = "Container.clone, XmlPart.clone, Document.clone (zip loading, deepcopy of byte parts): I/O, not encodable"
ASSUMPTIONS = ["pre-states are run-length encodings with repeats >= 1 whose maps equal make_cache_map(XML)"]
TRUSTED = _T
OBLIGATIONS = vault_obligations(10) + krow_obligations(10) + ktab_obligations(10, 40, 'nr')


def _c(fn, secs, bounds):
    return Obl(name=fn, module="h_kclone", func=fn, timeout=max(90, secs * 4), replay="r_h_kclone:" + fn, weight=secs, bounds=bounds,
               encodes=["src/odfdo/row.py:Row.clone,Row.repeated (setter)", "src/odfdo/table.py:Table.{rows,traverse,append_row,set_cell}", KT_ENCODES[2]],
               stubs=KT_STUBS + ["Element.clone re-pointed to the node-level deep copy of the typed-element layer (the real Row.clone runs on top of it)"])


OBLIGATIONS += [
    _c("kclone_row_from_traverse", 8, "row-runs in 1..2, plain cells; the k-th row of table.rows is cloned, the clone put in another table, repeated n >= 2 (unbounded) and edited"),
    _c("kclone_row_original_edit", 31, "row of 2 cell-runs, unbounded repeats; original edited after cloning"),
    _c("kclone_table", 43, "tall template, unbounded row-runs; set_cell on either twin"),
]
