from props.common import vault_obligations, krow_obligations, ktab_obligations, TRUSTED as _T

PROPERTY = "C10"
EXPLANATION = (
    "C10 (clone independence): frame conditions - after any vault operation a second vault built from copies of the same items "
    "is unchanged, the caller's item is neither inserted nor modified when clone=True, and map lists handed out earlier are not "
    "mutated except by the documented in-place append at the end. "
)
OUTSIDE = "Container.clone, XmlPart.clone, Document.clone (zip loading, deepcopy of byte parts): I/O, not encodable"
ASSUMPTIONS = ["pre-states are run-length encodings with repeats >= 1 whose maps equal make_cache_map(XML)"]
TRUSTED = _T
OBLIGATIONS = vault_obligations(10) + krow_obligations(10) + ktab_obligations(10, 40, 'nr')
