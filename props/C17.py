from props.common import TRUSTED as _T, KT_ENCODES, KT_STUBS
from vlib.runner import Obl

PROPERTY = "C17"
EXPLANATION = (
    "C17 (whole-table transformations): transpose moves (x,y) to (y,x) and twice is the identity (pointwise at a symbolic probe); rstrip removes only "
    "trailing empty rows/cells (styled empties only when aggressive), keeps every value at its coordinates and is idempotent - real table.py/row.py code "
    "on the typed-element layer. set_span/del_span on the lxml model (area, overlap refusal, values untouched, restoration); to_csv()/str(table) hand every "
    "value - 0, False and 0.0 included - to the CSV writer as it is. "
)
OUTSIDE = "set_span with merge=True, spans on tables larger than 3x3 (4x4 in the thorough tier), the csv module itself and import_from_csv (csv.Sniffer/reader/writer are heuristics and C code: the export obligation stops at the rows handed to the writer), repeats > 2 for transpose (3 in the thorough tier)"
ASSUMPTIONS = ["rectangular two row-runs x two cell-runs template with an optional run of trailing empty (possibly styled) cells and trailing empty rows"]
TRUSTED = _T
_E = ["src/odfdo/table.py:Table.transpose,rstrip,is_empty,optimize_width,_optimize_width_*", "src/odfdo/row.py:Row.rstrip,is_empty,extend_cells,traverse,minimized_width,force_width,last_cell"] + KT_ENCODES[2:3]


def _o(fn, secs, bounds, tier="quick"):
    return Obl(name=fn, module="h_kget", func=fn, timeout=max(90, secs * 4), replay="r_h_kget:" + fn, tier=tier, weight=secs,
               bounds=bounds, encodes=_E, stubs=KT_STUBS)


OBLIGATIONS = [
    _o("ktrans_twice_small", 110, "repeats in 1..2, probe <= 4"),
    _o("ktrans_ragged", 55, "ragged table: one row of 1..3 cells then 1..2 rows of 1..3 cells; transpose twice, probe <= 3"),
    _o("koptimize", 80, "row-runs in 1..3, cell-runs unbounded, trailing empty rows <= 3, trailing empty cells unbounded: optimize_width"),
    _o("krstrip_styled_rows", 10, "data rows 1..3 + 1..3 trailing rows of styled empty cells, aggressive flag symbolic"),
    _o("krstrip", 75, "row-runs in 1..3, cell-runs unbounded, trailing empty rows <= 3, trailing empty cells unbounded, styled/aggressive flags symbolic"),
]


_SENC = ["src/odfdo/table.py:Table.set_span,del_span,get_cell,get_cells,set_cells,set_row,traverse", "src/odfdo/cell.py:Cell.is_spanned,_is_spanned,clone,repeated", "src/odfdo/row.py:Row.set_cells,set_cell,traverse"]
for _r0 in (1, 2):
    for _c0 in (1, 2):
        OBLIGATIONS.append(Obl(name=f"span_area_r{_r0}_c{_c0}", module="h_span", func="span_area", shadow=True, timeout=900, env={"VERIF_R0": str(_r0), "VERIF_C0": str(_c0)},
                               extra={"r0": _r0, "c0": _c0}, replay="r_h_span:span_area", weight=130, tier="quick" if (_r0, _c0) in ((1, 2), (2, 1)) else "thorough",
                               bounds=f"3x3 table stored as rows [A x {_r0}, B x {3 - _r0}] of cells [v x {_c0}, w x {3 - _c0}]; every span area of at least 2 cells inside it (symbolic corners): set_span, overlapping set_span, del_span",
                               encodes=_SENC, stubs=["/verif/shadow/lxml (symdom)"]))

for _k in range(7):
    OBLIGATIONS.append(Obl(name=f"csv_rows_v{_k}", module="h_span", func="csv_rows", shadow=True, timeout=300, env={"VERIF_K0": str(_k)}, extra={"k0": _k},
                           replay="r_h_span:csv_rows", weight=45, tier="quick" if _k in (0, 1, 4) else "thorough",
                           bounds="to_csv() and str(table) on [v0 x rep, v1] / [v0]: v0 the %d-th (per process), v1 any (symbolic index) of 0, False, '', ' b ', None, Decimal('1.5'), 0.0; rep in 1..2" % _k,
                           encodes=["src/odfdo/table.py:Table.to_csv,__str__,iter_values", "src/odfdo/row.py:Row.get_values", "src/odfdo/element_typed.py:ElementTyped.get_value"],
                           stubs=["/verif/shadow/lxml (symdom)", "h_span._CsvStub: the csv module replaced by a recorder of the rows given to writerow (csv is C code)"]))

# thorough tier: the same reader obligations with repeats up to 3 and positions up to 6 (VERIF_DEPTH=1)
from props.common import kget_obligations as _kg  # noqa: E402

OBLIGATIONS += [o for o in _kg(['ktrans_twice_small', 'ktrans_ragged', 'koptimize', 'krstrip', 'krstrip_styled_rows']) if o.name.endswith("@d1")]

# thorough tier: the same span obligation on a 4 x 4 table (VERIF_DEPTH=1)
for _r0, _c0 in ((1, 1), (2, 2), (3, 3), (1, 3), (3, 1)):
    OBLIGATIONS.append(Obl(name=f"span_area_4x4_r{_r0}_c{_c0}", module="h_span", func="span_area", shadow=True, timeout=1800, tier="thorough",
                           env={"VERIF_R0": str(_r0), "VERIF_C0": str(_c0), "VERIF_DEPTH": "1"}, extra={"r0": _r0, "c0": _c0, "n": 4}, replay="r_h_span:span_area", weight=430,
                           bounds=f"4x4 table stored as rows [A x {_r0}, B x {4 - _r0}] of cells [v x {_c0}, w x {4 - _c0}]; every span area of at least 2 cells inside it (symbolic corners): set_span, overlapping set_span, del_span",
                           encodes=_SENC, stubs=["/verif/shadow/lxml (symdom)"]))
