from props.common import TRUSTED as _T, KT_ENCODES, KT_STUBS
from vlib.runner import Obl

PROPERTY = "C17"
EXPLANATION = (
    "C17 (whole-table transformations): transpose moves (x,y) to (y,x) and twice is the identity (pointwise at a symbolic probe); rstrip removes only "
    "trailing empty rows/cells (styled empties only when aggressive), keeps every value at its coordinates and is idempotent - real table.py/row.py code "
    "on the typed-element layer. "
)
OUTSIDE = "set_span/del_span (need real Cell attributes: pending symdom obligations), to_csv/import_from_csv (csv is C), repeats > 2 for transpose, ragged tables"
ASSUMPTIONS = ["rectangular two row-runs x two cell-runs template with an optional run of trailing empty (possibly styled) cells and trailing empty rows"]
TRUSTED = _T
_E = ["src/odfdo/table.py:Table.transpose,rstrip,is_empty,optimize_width,_optimize_width_*", "src/odfdo/row.py:Row.rstrip,is_empty,extend_cells,traverse,minimized_width,force_width,last_cell"] + KT_ENCODES[2:3]


def _o(fn, secs, bounds, tier="quick"):
    return Obl(name=fn, module="h_kget", func=fn, timeout=max(90, secs * 4), replay="r_h_kget:" + fn, tier=tier, weight=secs,
               bounds=bounds, encodes=_E, stubs=KT_STUBS)


OBLIGATIONS = [
    _o("ktrans_twice_small", 110, "repeats in 1..2, probe <= 4"),
    _o("koptimize", 80, "row-runs in 1..3, cell-runs unbounded, trailing empty rows <= 3, trailing empty cells unbounded: optimize_width"),
    _o("krstrip_styled_rows", 10, "data rows 1..3 + 1..3 trailing rows of styled empty cells, aggressive flag symbolic"),
    _o("krstrip", 75, "row-runs in 1..3, cell-runs unbounded, trailing empty rows <= 3, trailing empty cells unbounded, styled/aggressive flags symbolic"),
]
