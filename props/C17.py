from props.common import TRUSTED as _T, KT_ENCODES, KT_STUBS
from vlib.runner import Obl

PROPERTY = "C17"
EXPLANATION = (
    "C17 (whole-table transformations): transpose moves (x,y) to (y,x) and twice is the identity (pointwise at a symbolic probe); rstrip removes only "
    "trailing empty rows/cells (styled empties only when aggressive), keeps every value at its coordinates and is idempotent - real table.py/row.py code "
    "on the typed-element layer. "
)
OUTSIDE = "set_span/del_span (need real Cell attributes: pending symdom obligations), optimize_width, to_csv/import_from_csv (csv is C), repeats > 2 for transpose"
ASSUMPTIONS = ["rectangular two row-runs x two cell-runs template with an optional run of trailing empty (possibly styled) cells and trailing empty rows"]
TRUSTED = _T
_E = ["src/odfdo/table.py:Table.transpose,rstrip,is_empty", "src/odfdo/row.py:Row.rstrip,is_empty,extend_cells,traverse"] + KT_ENCODES[2:3]


def _o(fn, secs, bounds, tier="quick"):
    return Obl(name=fn, module="h_kget", func=fn, timeout=max(90, secs * 4), replay="r_h_kget:" + fn, tier=tier, weight=secs,
               bounds=bounds, encodes=_E, stubs=KT_STUBS)


OBLIGATIONS = [
    _o("ktrans_twice_small", 110, "repeats in 1..2, probe <= 4"),
    _o("krstrip", 75, "row-runs in 1..3, cell-runs unbounded, trailing empty rows <= 3, trailing empty cells unbounded, styled/aggressive flags symbolic"),
]
