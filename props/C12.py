"""C12: the (class, constructor parameter) list is computed from the imported package at run time."""
import inspect
import sys

from props.common import TRUSTED as _T
from vlib import runner
from vlib.runner import Obl

PROPERTY = "C12"
EXPLANATION = (
    "C12 (element classes round-trip, attribute half): for every registered element class and every constructor parameter naming a PropDef property "
    "(list read from the package at run time), the property getter returns the (symbolic) constructor argument right after construction and on a fresh "
    "wrapper built by Element.from_tag from a copy of the node, whose class is the same. "
)
OUTSIDE = ("well-formedness and infoset equality through real lxml serialisation (replay only); class dispatch at any depth (a dictionary lookup, nothing symbolic); constructor "
           "parameters that are not plain str/bool PropDef properties (sizes, positions, dates, enumerations such as VarChapter.display); strings longer than 4 characters, blank "
           "strings and the literal strings 'true'/'false' (known finding C12-true-false-strings)")
ASSUMPTIONS = ["argument strings of 1..4 characters in U+0021..U+D7FF, different from 'true'"]
TRUSTED = _T
_ENC = ["src/odfdo/element.py:Element._generic_attrib_getter/_setter,_define_attribut_property,from_tag,_class_registry", "every registered class's __init__ (list in the evidence samples)"]
_STUB = ["/verif/shadow/lxml (symdom)"]

# enumerations / typed arguments that are not free strings
SKIP = {("VarChapter", "display"), ("VarFileName", "display")}
FAMILY = {"page_layout": "master-page", "next_style": "master-page", "font_family_generic": "font-face", "font_pitch": "font-face"}


def _pairs():
    src = str(runner.SRC)
    if src not in sys.path:
        sys.path.insert(0, src)
    for m in [k for k in sys.modules if k == "odfdo" or k.startswith("odfdo.")]:
        del sys.modules[m]
    import odfdo  # noqa: F401
    from odfdo.element import _class_registry
    out = []
    for c in sorted({c for c in _class_registry.values()}, key=lambda c: (c.__module__, c.__name__)):
        props = {}
        for k in reversed(c.__mro__):
            for p in getattr(k, "_properties", ()):
                props[p.name] = p
        try:
            sig = inspect.signature(c.__init__)
        except Exception:
            continue
        for pname, par in sig.parameters.items():
            if pname not in props or (c.__name__, pname) in SKIP:
                continue
            ann = str(par.annotation)
            kind = "str" if ann in ("str", "str | None") else ("bool" if ann == "bool" else None)
            if kind is None:
                continue
            extra = {}
            if c.__name__ == "Style":
                extra = {"family": FAMILY.get(pname, "paragraph")}
                if extra["family"] == "font-face":
                    extra["font_name"] = "f"
            if c.__name__ == "MetaAutoReload":
                extra = None  # needs a timedelta: built inside the harness via eval
            out.append((c.__module__, c.__name__, pname, kind, extra))
    return out


OBLIGATIONS = []
for _mod, _cls, _par, _kind, _extra in _pairs():
    _env = {"VERIF_CLS": f"{_mod}:{_cls}", "VERIF_PARAM": _par}
    _x = {"cls": f"{_mod}:{_cls}", "param": _par}
    if _extra is None:
        _env["VERIF_EXTRA"] = "{'delay': __import__('datetime').timedelta(seconds=5)}"
        _x["extra"] = None
        continue  # MetaAutoReload: constructor needs a timedelta; not a plain string property round trip
    if _extra:
        _env["VERIF_EXTRA"] = repr(_extra)
        _x["extra"] = _extra
    OBLIGATIONS.append(Obl(name=f"{_cls}.{_par}", module="h_attrs", func=f"attr_{_kind}", shadow=True, timeout=120, env=_env, extra=_x,
                           replay=f"r_h_attrs:attr_{_kind}", weight=5,
                           bounds=f"{_cls}({_par}=<symbolic {_kind}>)" + (f" with {_extra}" if _extra else ""), encodes=_ENC, stubs=_STUB))
OBLIGATIONS.append(Obl(name="Span.style_true_string", module="h_attrs", func="attr_true_string", shadow=True, timeout=60,
                       env={"VERIF_CLS": "odfdo.paragraph:Span", "VERIF_PARAM": "style"}, extra={"cls": "odfdo.paragraph:Span", "param": "style"},
                       replay="r_h_attrs:attr_true_string", expect="finding", finding="C12-true-false-strings", weight=3,
                       bounds="companion of known finding C12-true-false-strings", encodes=_ENC, stubs=_STUB))

OBLIGATIONS.append(Obl(name="ListItem.text_content", module="h_attrs", func="text_content_arg", shadow=True, timeout=200, replay="r_h_attrs:text_content_arg", weight=15,
                       bounds="ListItem(s), s of <= 3 characters over {a, space, LF}", encodes=["src/odfdo/element.py:Element.text_content (getter/setter)", "src/odfdo/list.py:ListItem.__init__"], stubs=_STUB))


def _joint():
    from odfdo.element import _class_registry
    out = []
    for c in sorted({c for c in _class_registry.values()}, key=lambda c: (c.__module__, c.__name__)):
        props = {}
        for k in reversed(c.__mro__):
            for p in getattr(k, "_properties", ()):
                props[p.name] = p
        try:
            sig = inspect.signature(c.__init__)
        except Exception:
            continue
        strs, elems = [], []
        for pname, par in sig.parameters.items():
            ann = str(par.annotation)
            if pname in props and ann in ("str", "str | None") and (c.__name__, pname) not in SKIP:
                strs.append(pname)
            elif "Element" in ann and pname in ("text_or_element", "list_content"):  # a content argument: any element will do
                elems.append(pname)
        if len(strs) + len(elems) >= 2 and strs:
            out.append((c.__module__, c.__name__, strs, elems))
    return out


JOINT_EXTRA = {"Style": {"family": "paragraph"}}
JOINT_SKIP = {"Style": ["page_layout", "next_style", "font_family_generic", "font_pitch"]}
for _mod, _cls, _strs, _elems in _joint():
    if _cls == "MetaAutoReload":
        continue
    _env = {"VERIF_CLS": f"{_mod}:{_cls}"}
    _skip = JOINT_SKIP.get(_cls, []) + [p for (c, p) in SKIP if c == _cls]
    _names = [p for p in _strs if p not in _skip]
    _x = {"cls": f"{_mod}:{_cls}", "names": _names, "elems": _elems}
    if _cls in JOINT_EXTRA:
        _env["VERIF_EXTRA"] = repr(JOINT_EXTRA[_cls])
        _x["extra"] = JOINT_EXTRA[_cls]
    if _skip:
        _env["VERIF_SKIP"] = repr(_skip)
    OBLIGATIONS.append(Obl(name=f"{_cls}.joint", module="h_attrs", func="attr_joint", shadow=True, timeout=200, env=_env, extra=_x, replay="r_h_attrs:attr_joint", weight=6,
                           bounds=f"{_cls}(" + ", ".join(f"{p}=s+'{chr(97 + i)}'" for i, p in enumerate(_names)) + ("".join(f", {p}=<Paragraph> or absent" for p in _elems)) + ") with s a symbolic string of 1..2 printable ASCII characters",
                           encodes=_ENC, stubs=_STUB))

# thorough tier: argument strings one character longer (VERIF_DEPTH=1)
import copy as _copy  # noqa: E402

for _o in list(OBLIGATIONS):
    if _o.func in ("attr_str", "text_content_arg"):
        _n = _copy.copy(_o)
        _n.name = _o.name + "@d1"
        _n.tier = "thorough"
        _n.env = dict(_o.env or {}, VERIF_DEPTH="1")
        _n.timeout = 400
        _n.weight = 25
        _n.bounds = _o.bounds + "; strings one character longer (<= 5, text_content <= 4)"
        OBLIGATIONS.append(_n)
        if _o.func == "attr_str":
            _m = _copy.copy(_n)
            _m.name = _o.name + "@d4"
            _m.env = dict(_o.env or {}, VERIF_DEPTH="4")
            _m.bounds = _o.bounds + "; strings of up to 8 characters"
            OBLIGATIONS.append(_m)
