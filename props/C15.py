from props.common import TRUSTED as _T, KT_ENCODES, KT_STUBS, krow_reader_obligations
from vlib.runner import Obl

PROPERTY = "C15"
EXPLANATION = (
    "C15 (reads never change the document), table half: every Table/Row reader is run on the typed-element layer and the complete node tree "
    "(kinds, payloads, repeats, order) and the position maps are compared before/after; the read is also checked against the reference so that "
    "'calling twice gives the same answer' follows from purity + determinism. "
)
OUTSIDE = ("Document-level exporters, the csv module itself (C), "
           "Element.search/replace(None)/text readers (pending symdom obligations), style and metadata listings (no symbolic input)")
ASSUMPTIONS = ["two row-runs x two cell-runs template; expanding readers with repeats in 1..2"]
TRUSTED = _T
_E = KT_ENCODES[:2]


def _o(fn, secs, bounds, tier="quick"):
    return Obl(name=fn, module="h_kget", func=fn, timeout=max(90, secs * 4), replay="r_h_kget:" + fn, tier=tier, weight=secs,
               bounds=bounds, encodes=_E, stubs=KT_STUBS)


OBLIGATIONS = krow_reader_obligations() + [
    _o("kget_cell", 50, "unbounded"), _o("kget_row", 13, "unbounded"), _o("kget_rows_small", 60, "repeats in 1..2"),
    _o("kget_cells_small_cols", 90, "cell-runs in 1..2"), _o("kget_cells_small_rows", 125, "row-runs in 1..2"),
    _o("kget_column_small", 56, "repeats in 1..2"), _o("kget_values_small", 105, "repeats in 1..2: get_values, iter_values, flat, cells, size"),
    Obl(name="export_pure", module="h_export", func="export_pure", shadow=True, timeout=600, replay="r_h_export:export_pure", weight=135,
        bounds="real Table on the lxml model: row [1, empty x 0..3] + 0..3 empty rows; Markdown, plain text, RST, str(), CSV export, each twice",
        encodes=["src/odfdo/mixin_md.py:MDTable._md_format", "src/odfdo/table.py:Table.get_formatted_text,_get_formatted_text_normal,_get_formatted_text_rst,__str__,to_csv,optimize_width,rstrip"],
        stubs=["/verif/shadow/lxml (symdom)"]),
    Obl(name="text_export_twice", module="h_export", func="text_export_twice", shadow=True, timeout=300, replay="r_h_export:text_export_twice", weight=46,
        bounds="Paragraph or Header (symbolic) 'T'+t (t <= 1 character) holding 0..2 notes without citation label; get_formatted_text(simple symbolic) twice, and on an identical element built afresh",
        encodes=["src/odfdo/paragraph_base.py:ParagraphBase.get_formatted_text,_formatted_text", "src/odfdo/header.py:Header.get_formatted_text", "src/odfdo/note.py:Note.get_formatted_text"],
        stubs=["/verif/shadow/lxml (symdom)"]),
    Obl(name="count_pure_ws", module="h_repl", func="count_pure_ws", shadow=True, timeout=300, replay="r_h_repl:count_pure_ws", weight=30,
        bounds="replace(pattern, formatted=True) in count mode on a raw text node of <= 3 characters over {a, space, tab}",
        encodes=["src/odfdo/element.py:Element.replace (count mode)"], stubs=["/verif/shadow/lxml (symdom)"]),
    Obl(name="nr_read_is_pure", module="h_nrange", func="nr_read_is_pure", shadow=True, timeout=400, replay="r_h_nrange:nr_read_is_pure", weight=60,
        bounds="wrapping a stored named range (what every named-range lookup does) leaves its node untouched",
        encodes=["src/odfdo/table.py:NamedRange.__init__"], stubs=["/verif/shadow/lxml (symdom)"]),
    Obl(name="search_pos_pat0", module="h_repl", func="search_pos", shadow=True, timeout=200, env={"VERIF_PAT": "0"}, extra={"pat": 0}, replay="r_h_repl:search_pos", weight=25,
        bounds="search/search_first/search_all/match/text_recursive on <p>t0<span>t1</span>ab</p>, pattern 'a'",
        encodes=["src/odfdo/element.py:Element.search,search_first,search_all,match,text_recursive,inner_text"], stubs=["/verif/shadow/lxml (symdom)"]),
]

# thorough tier: the same reader obligations with repeats up to 3 and positions up to 6 (VERIF_DEPTH=1)
from props.common import kget_obligations as _kg  # noqa: E402

OBLIGATIONS += [o for o in _kg(['kget_values_small', 'kget_rows_small']) if o.name.endswith("@d1")]
