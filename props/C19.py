from props.common import TRUSTED as _T, krow_obligations
from vlib.runner import Obl

PROPERTY = "C19"
EXPLANATION = (
    "C19 (addressing forms agree): column letters <-> numbers is a bijection on the 1-, 2- and 3-letter ranges (0..18277, beyond the 16384 limit), "
    "written addresses parse back to the numbers they were written from (cell, range, partial ranges), negative numbers count from the end, "
    "string forms are accepted wherever a position is; Row API negative positions agree with non-negative ones (KT layer). "
)
OUTSIDE = ("expanding getters at repeats > 2; columns of 4 or more letters (> 18277) and rows > 10000 in written addresses at the quick tier (thorough: up to 18277 / 10^6; the 4-letter bijection itself did not finish in 600 s and is not claimed); named ranges: symbolic table names longer than 2 characters "
           "(longer ones from a representative list), areas beyond D4, table names containing . or $ (known finding C19-namedrange-dot-dollar)")
ASSUMPTIONS = []
TRUSTED = _T
_ENC = ["src/odfdo/utils/coordinates.py:alpha_to_digit,digit_to_alpha,convert_coordinates,increment,translate_from_any"]


def _o(fn, secs, bounds):
    return Obl(name=fn, module="h_coord", func=fn, timeout=max(60, secs * 5), replay="r_pure:call",
               extra={"_module": "h_coord", "_func": fn}, weight=secs, bounds=bounds, encodes=_ENC, stubs=[])


OBLIGATIONS = [
    _o("rt_digit_1", 6, "column numbers 0..25"), _o("rt_digit_2", 6, "column numbers 26..701"), _o("rt_digit_3", 11, "column numbers 702..18277"),
    _o("rt_alpha", 21, "1..3 upper-case letters"), _o("alpha_monotone", 2, "0 <= a < b <= 18277"),
    _o("conv_cell", 23, "x <= 701, y <= 9999"), _o("conv_range", 36, "x,z <= 25; y,t <= 99"), _o("conv_partial", 29, "x,z <= 701; y,t <= 999"),
    _o("neg_index", 2, "unbounded length n >= 1, -n <= v < 0"), _o("nonneg_index", 2, "unbounded"), _o("neg_index_empty", 2, "length 0, -1000 <= v < 0"), _o("neg_index_wrap", 20, "length n in 1..6, -3n <= v < 0"), _o("any_str", 25, "x <= 701, y <= 999"),
] + [o for o in krow_obligations(1) if o.name == "krow_negative"]


def _od(fn, secs, bounds):
    o = _o(fn, secs, bounds)
    o.name = fn + "@d1"
    o.tier = "thorough"
    o.env = {"VERIF_DEPTH": "1"}
    o.timeout = max(300, secs * 3)
    return o


# thorough tier: wider ranges (VERIF_DEPTH=1)
OBLIGATIONS += [
    _od("alpha_monotone", 5, "0 <= a < b <= 475253 (4-letter columns)"),
    _od("conv_cell", 260, "x <= 18277, y <= 999999"), _od("conv_range", 660, "x,z <= 701; y,t <= 9999"), _od("conv_partial", 430, "x,z <= 18277; y,t <= 999999"),
    _od("any_str", 170, "x <= 18277, y <= 999999"),
]

from props.common import KT_ENCODES, KT_STUBS  # noqa: E402


def _k(fn, secs, bounds, tier="quick"):
    return Obl(name=fn, module="h_kget", func=fn, timeout=max(120, secs * 4), replay="r_h_kget:" + fn, tier=tier, weight=secs, bounds=bounds,
               encodes=["src/odfdo/table.py:Table._translate_table_coordinates*,_translate_column_coordinates*,_translate_cell_coordinates,get_value,get_cell,get_values,get_cells,get_rows,get_columns"] + KT_ENCODES[3:],
               stubs=KT_STUBS)


OBLIGATIONS += [
    _k("kget_value_forms", 115, "unbounded repeats; x <= 25, y <= 98: 'B3' vs (1,2) vs 4-tuple vs negative form for get_value/get_cell"),
    _k("kget_area_negative_cols", 80, "cell-runs in 1..2: negative column numbers in 4-tuple areas and column ranges"),
    _k("kget_area_negative_rows", 150, "row-runs in 1..2: negative row numbers (and negative last column) in 4-tuple areas for get_values/get_cells/get_rows"),
    _k("kget_columns_range_small", 20, "cell-runs in 1..2: a column range bounds get_columns on both sides"),
]


_NENC = ["src/odfdo/table.py:NamedRange.__init__,set_range,_set_range,_update_attributes,_make_base_cell_address,_make_cell_range_address,_table_name_check", KT_ENCODES[3]]
_NSTUB = ["/verif/shadow/lxml (symdom)"]
OBLIGATIONS += [
    Obl(name="nr_roundtrip_name", module="h_nrange", func="nr_roundtrip_name", shadow=True, timeout=600, replay="r_h_nrange:nr_roundtrip_name", weight=120,
        bounds="table names of 1..2 characters over {a, b, space, apostrophe}, area A1:B2", encodes=_NENC, stubs=_NSTUB),
    Obl(name="nr_roundtrip_area", module="h_nrange", func="nr_roundtrip_area", shadow=True, timeout=500, replay="r_h_nrange:nr_roundtrip_area", weight=95,
        bounds="areas with corners in 0..3, table name one of 'ab', 'a b', \"a'b\"", encodes=_NENC, stubs=_NSTUB),
    Obl(name="nr_roundtrip_listed", module="h_nrange", func="nr_roundtrip_listed", shadow=True, timeout=300, replay="r_h_nrange:nr_roundtrip_listed", weight=45,
        bounds="9 representative longer names chosen by a symbolic index (the solver only picks the case), areas with corner in 0..2", encodes=_NENC, stubs=_NSTUB),
    Obl(name="rename_updates_ranges", module="h_nrange", func="rename_updates_ranges", shadow=True, timeout=600, replay="r_h_nrange:rename_updates_ranges", weight=135,
        bounds="spreadsheet body with tables t1 and t (a name contained in the other) and one named range on each; t1 renamed to a symbolic accepted name of 1..2 characters over {a, b, space}",
        encodes=_NENC + ["src/odfdo/table.py:Table.name (setter),get_named_ranges,NamedRange.set_table_name", "src/odfdo/element.py:get_named_ranges,get_named_range,document_body"], stubs=_NSTUB),
    Obl(name="nr_read_is_pure", module="h_nrange", func="nr_read_is_pure", shadow=True, timeout=400, replay="r_h_nrange:nr_read_is_pure", weight=60,
        bounds="stored named range with base cell (0..3, 0..3) independent of the 2x2 range at (0..2, 0..2)", encodes=_NENC, stubs=_NSTUB),
    Obl(name="nr_roundtrip_dotted", module="h_nrange", func="nr_roundtrip_dotted", shadow=True, timeout=120, replay="r_h_nrange:nr_roundtrip_dotted", weight=10,
        expect="finding", finding="C19-namedrange-dot-dollar", bounds="companion of known finding C19-namedrange-dot-dollar", encodes=_NENC, stubs=_NSTUB),
]

# thorough tier: the same reader obligations with repeats up to 3 and positions up to 6 (VERIF_DEPTH=1)
from props.common import kget_obligations as _kg  # noqa: E402

OBLIGATIONS += [o for o in _kg(['kget_area_negative_cols', 'kget_area_negative_rows', 'kget_columns_range_small']) if o.name.endswith("@d1")]
