from props.common import TRUSTED as _T
from vlib.runner import Obl

PROPERTY = "C13"
EXPLANATION = (
    "C13 (styles land in the right container, stay unique, are found again): the real Document.insert_style with its helpers and _set_automatic_name, "
    "Document/Styles/Content get_style(s), _get_style_contexts, Element.get_style(s), make_xpath_query on the lxml model; a Document whose styles.xml and content.xml "
    "parts are real Styles/Content objects over small trees with the four style containers. Symbolic style names (the solver decides whether two names coincide) and "
    "automatic flag; family concrete per obligation. Oracle: container required by family/flags (table from the ODF schema), at most one style per (tag, family, name) "
    "per container, lookup by the returned name yields exactly the inserted node, generated automatic names never collide. merge_styles_from on two real documents over the in-memory container: the other document is left unchanged, the result is the union with the definitions of the other document winning (named, default, master-page, page-layout, font-face styles, a draw:marker, the same name in different containers of styles.xml), nothing duplicated. "
)
OUTSIDE = ("the four real templates and sample documents, save/reload, delete_styles, merges of documents with more than two or three styles (pictures referred to by merged styles: see C04 merge_images), set_table_displayed, "
           "add_page_break_style, names longer than 2 characters, families other than the six listed")
ASSUMPTIONS = ["names of 1..2 characters over {a, b}"]
TRUSTED = _T
_ENC = ["src/odfdo/document.py:Document.insert_style,_insert_style_*,_set_automatic_name,_pseudo_style_attribute,get_style,get_styles",
        "src/odfdo/styles.py:Styles.get_style,get_styles,_get_style_contexts", "src/odfdo/content.py:Content.get_style,get_styles,_get_style_contexts",
        "src/odfdo/element.py:Element.get_style,get_styles,_get_style_tagname,_filtered_element(s)", "src/odfdo/utils/xpath_query.py:make_xpath_query", "src/odfdo/style.py:Style.__init__"]
_STUB = ["/verif/shadow/lxml (symdom)", "memdoc.MemContainer: dict-backed subclass of odfdo.container.Container handed to Document(container); Document.__init__, get_part and the parts run as written, no zip or filesystem"]

OBLIGATIONS = []
_T_NAMED = {"paragraph": 140, "text": 140, "table-cell": 140, "master-page": 50, "page-layout": 50, "font-face": 60}
for _fam, _secs in _T_NAMED.items():
    OBLIGATIONS.append(Obl(name=f"insert_named_{_fam}", module="h_styles", func="insert_named", shadow=True, timeout=_secs * 5, env={"VERIF_FAMILY": _fam},
                           extra={"family": _fam}, replay="r_h_styles:insert_named", weight=_secs, tier="quick" if _fam != "table-cell" else "thorough",
                           bounds=f"two successive inserts of named {_fam} styles, names of 1..2 characters over {{a, b}}, automatic flag symbolic", encodes=_ENC, stubs=_STUB))
for _fam in ("paragraph", "text"):
    OBLIGATIONS.append(Obl(name=f"insert_default_{_fam}", module="h_styles", func="insert_default", shadow=True, timeout=120, env={"VERIF_FAMILY": _fam},
                           extra={"family": _fam}, replay="r_h_styles:insert_default", weight=10,
                           bounds=f"two successive default {_fam} styles, first possibly named", encodes=_ENC, stubs=_STUB))
    OBLIGATIONS.append(Obl(name=f"insert_automatic_unnamed_{_fam}", module="h_styles", func="insert_automatic_unnamed", shadow=True, timeout=900, env={"VERIF_FAMILY": _fam},
                           extra={"family": _fam}, replay="r_h_styles:insert_automatic_unnamed", weight=190, tier="quick" if _fam == "text" else "thorough",
                           bounds=f"existing automatic {_fam} style named one of ['', 'x', 'odfdo_auto_7', 'odfdo_auto_x', 'odfdo_auto_'] plus 'odfdo_auto_<k>', 0 <= k <= 12; two unnamed automatic inserts",
                           encodes=_ENC, stubs=_STUB))

OBLIGATIONS.append(Obl(name="insert_auto_interleaved_text", module="h_styles", func="insert_auto_interleaved", shadow=True, timeout=900, env={"VERIF_FAMILY": "text"},
                       extra={"family": "text"}, replay="r_h_styles:insert_auto_interleaved", weight=100,
                       bounds="unnamed automatic insert, a style named odfdo_auto_<k> (1 <= k <= 4) inserted before or after it, another unnamed insert", encodes=_ENC, stubs=_STUB))

_MENC = _ENC + ["src/odfdo/document.py:Document.merge_styles_from"]
for _k1 in range(3):
    for _fam in ("paragraph", "text"):
        OBLIGATIONS.append(Obl(name=f"merge_named_{_fam}_{_k1}", module="h_styles", func="merge_named", shadow=True, timeout=600, env={"VERIF_FAMILY": _fam, "VERIF_K1": str(_k1)},
                               extra={"family": _fam, "k1": _k1}, replay="r_h_styles:merge_named", weight=70, tier="quick" if _fam == "paragraph" else "thorough",
                               bounds=(f"dest holds ({_fam}, name {_k1} of ['a','b','a b']) + a style of another family with that name + a default style; the other document holds ({_fam}, name k2 - symbolic index) "
                                       "common or automatic (symbolic), with or without a default style (symbolic); merge_styles_from: other unchanged, union, theirs win, no duplicates"),
                               encodes=_MENC, stubs=_STUB))
for _fam in ("master-page", "page-layout", "font-face"):
    OBLIGATIONS.append(Obl(name=f"merge_kind_{_fam}", module="h_styles", func="merge_kind", shadow=True, timeout=300, env={"VERIF_FAMILY": _fam}, extra={"family": _fam},
                           replay="r_h_styles:merge_kind", weight=20,
                           bounds=f"merge of a {_fam} into a document holding one of the same or another name (symbolic), a paragraph style of the same name, optionally a default style",
                           encodes=_MENC, stubs=_STUB))
OBLIGATIONS.append(Obl(name="merge_marker", module="h_styles", func="merge_marker", shadow=True, timeout=400, replay="r_h_styles:merge_marker", weight=60,
                       bounds="merge (once or twice - symbolic) of a document holding a draw:marker into one with 0..3 default styles and with or without a marker of the same draw:name",
                       encodes=_MENC, stubs=_STUB))
for _k1 in range(3):
    OBLIGATIONS.append(Obl(name=f"merge_cross_{_k1}", module="h_styles", func="merge_cross", shadow=True, timeout=300, env={"VERIF_FAMILY": "paragraph", "VERIF_K1": str(_k1)},
                           extra={"family": "paragraph", "k1": _k1}, replay="r_h_styles:merge_cross", weight=17,
                           bounds=f"paragraph style (name {_k1} of ['a','b','a b']) in office:styles or office:automatic-styles of dest's styles.xml (symbolic), the other document's (name k2, symbolic index) in the other container",
                           encodes=_MENC, stubs=_STUB))
