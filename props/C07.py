from props.common import vault_obligations, krow_obligations, ktab_obligations, TRUSTED as _T

PROPERTY = "C07"
EXPLANATION = (
    "C07 (structural validity): after one operation from an arbitrary valid state every repeat is >= 1 (stored as absent or >= 2), "
    "_set_repeated is never fed a value < 1, children that precede the items stay in front, sizes equal the sums of repeats. "
)
OUTSIDE = "names longer than the stated bound; see C01"
ASSUMPTIONS = ["pre-states are run-length encodings with repeats >= 1 whose maps equal make_cache_map(XML)"]
TRUSTED = _T
OBLIGATIONS = vault_obligations(7) + krow_obligations(7) + ktab_obligations(7, 40, 'nr')
