from vlib.runner import Obl
from props.common import empty_table_obligations, ragged_obligations, vault_obligations, krow_obligations, ktab_obligations, TRUSTED as _T

PROPERTY = "C07"
EXPLANATION = (
    "C07 (structural validity): after one operation from an arbitrary valid state every repeat is >= 1 (stored as absent or >= 2), "
    "_set_repeated is never fed a value < 1, children that precede the items stay in front, sizes equal the sums of repeats. "
)
OUTSIDE = "names longer than the stated bound; see C01"
ASSUMPTIONS = ["pre-states are run-length encodings with repeats >= 1 whose maps equal make_cache_map(XML)"]
TRUSTED = _T
OBLIGATIONS = vault_obligations(7) + krow_obligations(7) + ktab_obligations(7, 40, 'nr')


def _n(fn, secs, bounds, tier="quick"):
    return Obl(name=fn, module="h_names", func=fn, timeout=max(90, secs * 4), replay="r_pure:call", tier=tier,
               extra={"_module": "h_names", "_func": fn}, weight=secs, bounds=bounds,
               encodes=["src/odfdo/table.py:_table_name_check,NamedRange.name (setter),forbidden_in_named_range"],
               stubs=["h_names.NR: NamedRange whose set_attribute stores into a dict (no lxml) - only the validation code of the setter runs"])


OBLIGATIONS += [
    _n("table_name_any3", 17, "names of <= 3 characters, ANY character: accepted <=> office rule (non-blank after strip; none of [ ] * ? : / backslash LF; no leading/trailing apostrophe), result is the stripped name"),
    _n("table_name_alpha5", 150, "names of <= 5 characters over {a, space, apostrophe, [, ], *, ?, :, /, backslash, LF, TAB, e-acute, .}", "thorough"),
    _n("named_range_name", 100, "printable-ASCII names of <= 3 characters: accepted => word characters, not cell-reference shaped; certainly valid => accepted"),
]


# A-level: the real Row/Cell classes (string-valued repeat accessors, Cell.clone) on the lxml model
for _fn in ['arow_set', 'arow_delete']:
    _secs = {'arow_set': 255, 'arow_insert': 235, 'arow_delete': 35, 'arow_get_clone': 40}[_fn]
    OBLIGATIONS.append(Obl(name=_fn, module="h_arow", func=_fn, shadow=True, timeout=_secs * 4, replay="r_h_arow:" + _fn, weight=_secs,
                           tier="quick" if _secs < 100 else "thorough",
                           bounds="real Row of two cell-runs with repeats in 1..3, positions <= 7, inserted repeat <= 3, probe <= 10",
                           encodes=["src/odfdo/row.py:Row (all methods used, incl. repeated accessors)", "src/odfdo/cell.py:Cell.__init__,repeated,_set_repeated,clone,get_value,set_value",
                                    "src/odfdo/element.py:Element.insert,delete,index,clone,_get_element_idx2,elements_repeated_sequence", "src/odfdo/element_cached.py (all)"],
                           stubs=["/verif/shadow/lxml (symdom)"]))

for _fn in ['arow_insert_small']:
    OBLIGATIONS.append(Obl(name=_fn, module="h_arow", func=_fn, shadow=True, timeout=600, replay="r_h_arow:" + _fn, weight=130,
                           bounds="real Row of two cell-runs with repeats in 1..2, positions <= 4, inserted repeat <= 2, probe <= 6",
                           encodes=["src/odfdo/row.py:Row", "src/odfdo/cell.py:Cell.repeated,_set_repeated,clone", "src/odfdo/element_cached.py (all)"],
                           stubs=["/verif/shadow/lxml (symdom)"]))

OBLIGATIONS += ragged_obligations(7)

OBLIGATIONS += empty_table_obligations()
