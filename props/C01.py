from vlib.runner import Obl
from props.common import empty_table_obligations, ragged_obligations, bulk_obligations, kget_obligations, vault_obligations, krow_obligations, ktab_obligations, TRUSTED as _T

PROPERTY = "C01"
EXPLANATION = (
    "C01 (table editing = plain grid): one inductive step from an arbitrary valid run-length state. "
    "K: the vault/map kernel of element_cached.py on a list-backed vault with unbounded integers; "
    "KT: the real table.py/row.py methods on the typed-element layer (unbounded integers); "
    "A: the real Row/Table/Cell code on the pure-Python lxml model at small repeats. "
    "Each obligation compares the value read at a symbolic probe position with the list-of-lists reference."
)
OUTSIDE = ("histories longer than one step except through the inductive argument (valid pre-state -> valid post-state), "
           "row groups/header rows, more than 4 runs per vault, cell contents other than small integers")
ASSUMPTIONS = ["pre-states are run-length encodings with repeats >= 1 whose maps equal make_cache_map(XML)"]
TRUSTED = _T

OBLIGATIONS = vault_obligations(1) + krow_obligations(1) + ktab_obligations(1, 60, 'nr')


# A-level: the real Row/Cell classes (string-valued repeat accessors, Cell.clone) on the lxml model
for _fn in ['arow_set', 'arow_insert', 'arow_delete']:
    _secs = {'arow_set': 255, 'arow_insert': 235, 'arow_delete': 35, 'arow_get_clone': 40}[_fn]
    OBLIGATIONS.append(Obl(name=_fn, module="h_arow", func=_fn, shadow=True, timeout=_secs * 4, replay="r_h_arow:" + _fn, weight=_secs,
                           tier="quick" if _secs < 100 else "thorough",
                           bounds="real Row of two cell-runs with repeats in 1..3, positions <= 7, inserted repeat <= 3, probe <= 10",
                           encodes=["src/odfdo/row.py:Row (all methods used, incl. repeated accessors)", "src/odfdo/cell.py:Cell.__init__,repeated,_set_repeated,clone,get_value,set_value",
                                    "src/odfdo/element.py:Element.insert,delete,index,clone,_get_element_idx2,elements_repeated_sequence", "src/odfdo/element_cached.py (all)"],
                           stubs=["/verif/shadow/lxml (symdom)"]))

for _fn in ['arow_set_small', 'arow_insert_small']:
    OBLIGATIONS.append(Obl(name=_fn, module="h_arow", func=_fn, shadow=True, timeout=600, replay="r_h_arow:" + _fn, weight=130,
                           bounds="real Row of two cell-runs with repeats in 1..2, positions <= 4, inserted repeat <= 2, probe <= 6",
                           encodes=["src/odfdo/row.py:Row", "src/odfdo/cell.py:Cell.repeated,_set_repeated,clone", "src/odfdo/element_cached.py (all)"],
                           stubs=["/verif/shadow/lxml (symdom)"]))

OBLIGATIONS += ragged_obligations(1)
OBLIGATIONS += bulk_obligations(1)
# the reads named by the property: row range, column, area, full matrix (pointwise at a symbolic probe)
OBLIGATIONS += kget_obligations(["kget_rows_small", "kget_values_small", "kget_column_small", "kget_cells_small_cols", "kget_cells_small_rows"],
                                quick=("kget_rows_small", "kget_column_small"), deep=False)

OBLIGATIONS += empty_table_obligations()
