from props.common import vault_obligations, krow_obligations, ktab_obligations, TRUSTED as _T

PROPERTY = "C01"
EXPLANATION = (
    "C01 (table editing = plain grid): one inductive step from an arbitrary valid run-length state. "
    "K: the vault/map kernel of element_cached.py on a list-backed vault with unbounded integers; "
    "KT: the real table.py/row.py methods on the typed-element layer (unbounded integers); "
    "A: the real Row/Table/Cell code on the pure-Python lxml model at small repeats. "
    "Each obligation compares the value read at a symbolic probe position with the list-of-lists reference."
)
OUTSIDE = ("histories longer than one step except through the inductive argument (valid pre-state -> valid post-state), "
           "row groups/header rows, more than 4 runs per vault, cell contents other than small integers")
ASSUMPTIONS = ["pre-states are run-length encodings with repeats >= 1 whose maps equal make_cache_map(XML)"]
TRUSTED = _T

OBLIGATIONS = vault_obligations(1) + krow_obligations(1) + ktab_obligations(1, 60, 'nr')
