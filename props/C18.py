from props.common import TRUSTED as _T
from vlib.runner import Obl

PROPERTY = "C18"
EXPLANATION = (
    "C18 (codecs): Boolean encode/decode (exact inverse, rejection of every other string), Duration.decode on the lexical forms odfdo and other "
    "producers write, DateTime.encode's +00:00 -> Z canonicalisation on an arbitrary isoformat() result, hexa_color's string dispatch. "
)
OUTSIDE = ("date/datetime.isoformat/fromisoformat and strftime (C routines); the 24-bit colour bijection through :02X / int(.,16) and the 147 CSS names (finite tables, C formatting); "
           "Duration.encode (float kernel: E3 obligations pending); Duration.decode's leniency on strings outside xsd:duration; Unit")
ASSUMPTIONS = ["string lengths and alphabets as stated per obligation"]
TRUSTED = _T
_ENC = ["src/odfdo/datatype.py:Boolean.encode,Boolean.decode,Duration.decode,DateTime.encode", "src/odfdo/utils/color.py:hexa_color"]
_STUB = ["h_codec.FakeDT: object whose isoformat() returns an arbitrary symbolic string (stand-in for datetime)", "pad2(n) = str(n).rjust(2,'0') as the model of C's %02d"]


def _o(fn, secs, bounds, tier="quick"):
    return Obl(name=fn, module="h_codec", func=fn, timeout=max(90, secs * 4), replay="r_pure:call", tier=tier,
               extra={"_module": "h_codec", "_func": fn}, weight=secs, bounds=bounds, encodes=_ENC, stubs=_STUB)


OBLIGATIONS = [
    _o("bool_rt", 1, "both booleans"), _o("bool_reject", 1, "any string of <= 6 characters"),
    _o("bool_encode_str", 80, "strings of <= 4 characters over {t,T,r,u,e}"),
    _o("dur_decode_rt", 14, "[-]PThhHmmMssS, h <= 999, m,s < 60"), _o("dur_decode_days", 29, "[-]PnDTnHnMnS, d <= 999"),
    _o("dur_reject_prefix", 5, "strings of <= 3 characters over {-,P,T,1,H,M,S,D,x}"),
    _o("datetime_z", 1, "any isoformat() result of <= 8 characters"), _o("hexa_color_str", 23, "strings of <= 3 characters over {space,#,0,a,F}"),
]
