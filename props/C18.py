from props.common import TRUSTED as _T
from vlib.runner import Obl

PROPERTY = "C18"
EXPLANATION = (
    "E3: Duration.encode is translated from its AST (ints -> 64-bit vectors, int/int -> Float64 RNE division, %02d -> truncation) and "
    "h*3600+m*60+s == |total seconds|, 0 <= m,s < 60, sign correct is decided per slice of 43 days by cvc5 (+z3), decomposed at the two integer %= cut points "
    "(cut lemma over mathematical integers on both solvers); a pure-integer implementation is decided as one integer query. "
    "C18 (codecs): Boolean encode/decode (exact inverse, rejection of every other string), Duration.decode on the lexical forms odfdo and other "
    "producers write, DateTime.encode's +00:00 -> Z canonicalisation on an arbitrary isoformat() result, hexa_color's string dispatch. "
)
OUTSIDE = ("durations of 688 days or more in the quick tier / 10922 days (2**18 hours, 29.9 years) in the thorough tier; durations with microseconds (dropped by design); "
           "date/datetime.isoformat/fromisoformat and strftime (C routines); the 24-bit colour bijection through :02X / int(.,16) and the 147 CSS names (finite tables, C formatting); "
           "Duration.decode's leniency on strings outside xsd:duration; Unit")
ASSUMPTIONS = ["string lengths and alphabets as stated per obligation"]
TRUSTED = _T
_ENC = ["src/odfdo/datatype.py:Boolean.encode,Boolean.decode,Duration.decode,DateTime.encode", "src/odfdo/utils/color.py:hexa_color"]
_STUB = ["h_codec.FakeDT: object whose isoformat() returns an arbitrary symbolic string (stand-in for datetime)", "pad2(n) = str(n).rjust(2,'0') as the model of C's %02d"]


def _o(fn, secs, bounds, tier="quick"):
    return Obl(name=fn, module="h_codec", func=fn, timeout=max(90, secs * 4), replay="r_pure:call", tier=tier,
               extra={"_module": "h_codec", "_func": fn}, weight=secs, bounds=bounds, encodes=_ENC, stubs=_STUB)


OBLIGATIONS = [
    _o("bool_rt", 1, "both booleans"), _o("bool_reject", 1, "any string of <= 6 characters"),
    _o("bool_encode_str", 80, "strings of <= 4 characters over {t,T,r,u,e}"),
    _o("dur_decode_rt", 14, "[-]PThhHmmMssS, h <= 999, m,s < 60"), _o("dur_decode_days", 29, "[-]PnDTnHnMnS, d <= 999"),
    _o("dur_reject_prefix", 5, "strings of <= 3 characters over {-,P,T,1,H,M,S,D,x}"),
    _o("datetime_z", 1, "any isoformat() result of <= 8 characters"), _o("hexa_color_str", 23, "strings of <= 3 characters over {space,#,0,a,F}"),
    _o("color_decode_form", 30, "hex2rgb on p + '0aF' + q with p, q of 2 characters over {#,+,-,_,space,0,a,F,x,U+0661}"),
    _o("color_decode_short", 5, "hex2rgb on any string of <= 8 characters whose length is not 7"),
]




def _od(fn, secs, bounds):
    o = _o(fn, secs, bounds, "thorough")
    o.name = fn + "@d1"
    o.env = {"VERIF_DEPTH": "1"}
    o.timeout = max(300, secs * 4)
    return o


# thorough tier: one more character / two more digits (VERIF_DEPTH=1)
OBLIGATIONS += [
    _od("bool_reject", 10, "any string of <= 7 characters"), _od("bool_encode_str", 260, "strings of <= 5 characters over {t,T,r,u,e}"),
    _od("dur_decode_days", 170, "[-]PnDTnHnMnS, d <= 99999"),  # (dur_decode_rt with h <= 99999 did not finish in 1180 s: not claimed)
    _od("dur_reject_prefix", 30, "strings of <= 4 characters over {-,P,T,1,H,M,S,D,x}"),
    _od("datetime_z", 10, "any isoformat() result of <= 9 characters"), _od("hexa_color_str", 120, "strings of <= 4 characters over {space,#,0,a,F}"),
]

_E3ENC = ["src/odfdo/datatype.py:Duration.encode (AST -> SMT-LIB, regenerated from the source on every run)"]
_E3STUB = ["the isinstance(value, timedelta) guard is assumed true; timedelta normal form (0 <= seconds < 86400, microseconds == 0) is the input domain",
           "C's %02d conversion of a float modelled as truncation toward zero; validated on 20 concrete vectors against the real function on every run"]


def _slice(k, neg, cross, tier):
    lo, hi = 43 * k, 43 * (k + 1)
    return Obl(name=f"e3_encode_{'neg' if neg else 'pos'}_{lo}_{hi}", module="e3_duration", func="slice", engine="script",
               script_args=[lo, hi, neg, cross, 300], timeout=400 if cross else 200, tier=tier, replay="r_e3:duration", twin=False,
               weight=130 if cross else 45,
               bounds=f"whole-second durations of {'negative' if neg else 'non-negative'} sign with {lo} <= |days| < {hi} (every hour/minute/second inside), decided by cvc5"
                      + (" and z3" if cross else ""), encodes=_E3ENC, stubs=_E3STUB)


for _k in range(16):
    OBLIGATIONS.append(_slice(_k, 0, 1 if _k == 0 else 0, "quick"))
for _k in range(4):
    OBLIGATIONS.append(_slice(_k, 1, 0, "quick"))
for _k in range(16, 254):
    OBLIGATIONS.append(_slice(_k, 0, 1 if _k % 32 == 0 else 0, "thorough"))
for _k in range(4, 64):
    OBLIGATIONS.append(_slice(_k, 1, 1 if _k % 32 == 0 else 0, "thorough"))
