from props.common import TRUSTED as _T
from vlib.runner import Obl

PROPERTY = "C06"
EXPLANATION = (
    "C06 (typed values survive the trip): the real dispatch code (ElementTyped.set_value_and_type/_get_typed_value, Cell.__init__/value/get_value/set_value and the "
    "typed setters, Meta.set_user_defined_metadata/_get_meta_value_full) on the lxml model. str values are symbolic; for date/datetime/timedelta the ENCODED "
    "STRING is symbolic: the codecs are recording stubs returning an arbitrary string inside the codec's lexical contract and decoding to (codec, string), so a "
    "value must come back through the decoder of its own type with its own string whatever the string contains. bool/int/float/Decimal/None lattice corners "
    "are run concretely through the same code. Codec inverse-ness is C18. "
)
OUTSIDE = ("int/float/Decimal <-> text (CPython C code; CrossHair's Decimal model fails on symbolic strings): only lattice corners are executed; Date.decode returning a datetime for a "
           "plain date (documented return type of the codec; dispatch is what is judged); save/reload; strings longer than 4 characters (6 in the thorough tier); currency/percentage cell types")
ASSUMPTIONS = ["one representative object per Python type (an enumeration of the type lattice, not a solver claim); the solver's part is the strings"]
TRUSTED = _T
_ENC = ["src/odfdo/element_typed.py:ElementTyped.set_value_and_type,_get_typed_value,get_value", "src/odfdo/cell.py:Cell.__init__,value (getter/setter),set_value,date/datetime/duration/string/bool setters",
        "src/odfdo/meta.py:Meta.set_user_defined_metadata,_get_meta_value_full"]
_STUB = ["/verif/shadow/lxml (symdom)", "h_typed.SDate/SDateTime/SDuration: recording stub codecs (encode -> symbolic string within the lexical contract, decode -> (codec, string))",
         "Meta built without a container: get_elements/get_meta_body answer from one office:meta element"]

OBLIGATIONS = []
for _k in ("date", "datetime", "timedelta"):
    for _fn in ("cell_temporal", "meta_temporal", "meta_overwrite"):
        OBLIGATIONS.append(Obl(name=f"{_fn}_{_k}", module="h_typed", func=_fn, shadow=True, timeout=120, env={"VERIF_KIND": _k}, extra={"kind": _k},
                               replay="r_h_typed:" + _fn, weight=4,
                               bounds=f"value of type {_k}; encoded string a + ('T' if dateTime) + b with a, b arbitrary strings of <= 1 character (no 'T' for a date)",
                               encodes=_ENC, stubs=_STUB))
OBLIGATIONS += [
    Obl(name="cell_string", module="h_typed", func="cell_string", shadow=True, timeout=120, replay="r_h_typed:cell_string", weight=5,
        bounds="str values of <= 4 characters in U+0020..U+D7FF or LF (the words true and false included)", encodes=_ENC[:2], stubs=_STUB[:1]),
    Obl(name="cell_simple", module="h_typed", func="cell_simple", shadow=True, timeout=120, replay="r_h_typed:cell_simple", weight=5,
        bounds="both booleans (symbolic); ints 0, -3, 12, 10**20, 10**30, -2**100, Decimal('1.50'), 2.5, None (concrete)", encodes=_ENC[:2], stubs=_STUB[:1]),
]

_CENC = _ENC[:1] + ["src/odfdo/variable.py:VarSet,VarGet,UserFieldDecl,UserFieldGet,UserDefined (__init__, set_value)",
                    "src/odfdo/element.py:get_variable_set_value,get_user_field_value,get_user_defined_value"]
for _c in ("varset", "varget", "userfielddecl", "userfieldget", "userdefined"):
    for _k in ("date", "datetime", "timedelta"):
        OBLIGATIONS.append(Obl(name=f"carrier_temporal_{_c}_{_k}", module="h_typed", func="carrier_temporal", shadow=True, timeout=120,
                               env={"VERIF_KIND": _k, "VERIF_CARRIER": _c}, extra={"kind": _k, "carrier": _c}, replay="r_h_typed:carrier_temporal", weight=4,
                               bounds=f"{_c} holding a {_k}; encoded string a + ('T' if dateTime) + b with a, b arbitrary strings of <= 1 character",
                               encodes=_CENC, stubs=_STUB[:2]))
    OBLIGATIONS.append(Obl(name=f"carrier_string_{_c}", module="h_typed", func="carrier_string", shadow=True, timeout=120, env={"VERIF_CARRIER": _c},
                           extra={"carrier": _c}, replay="r_h_typed:carrier_string", weight=4,
                           bounds=f"{_c} holding a str of <= 4 characters in U+0020..U+D7FF", encodes=_CENC, stubs=_STUB[:1]))
    OBLIGATIONS.append(Obl(name=f"carrier_simple_{_c}", module="h_typed", func="carrier_simple", shadow=True, timeout=120, env={"VERIF_CARRIER": _c},
                           extra={"carrier": _c}, replay="r_h_typed:carrier_simple", weight=4,
                           bounds=f"{_c} holding either boolean (symbolic), ints 0, -3, 12, 10**20, 10**30, -2**100, Decimal('1.50'), None (concrete)", encodes=_CENC, stubs=_STUB[:1]))

# thorough tier: the same obligations with longer strings (VERIF_DEPTH: +1 / +2 characters)
import copy as _copy  # noqa: E402

for _o in list(OBLIGATIONS):
    if _o.func.endswith("_simple"):
        continue
    for _d in (1, 2):
        _n = _copy.copy(_o)
        _n.name = f"{_o.name}@d{_d}"
        _n.tier = "thorough"
        _n.env = dict(_o.env or {}, VERIF_DEPTH=str(_d))
        _n.timeout = 600 if _d == 1 else 1500
        _n.weight = (_o.weight or 4) * (6 if _d == 1 else 40)
        _n.bounds = _o.bounds + f"; each string bound raised by {_d}"
        OBLIGATIONS.append(_n)
