from props.common import TRUSTED as _T
from vlib.runner import Obl

PROPERTY = "C20"
EXPLANATION = (
    "A-level: the real TOC.fill on the lxml model - three headings of symbolic levels, every outline level and TOC position: listed entries, their order, numbers "
    "(reference model applied to the LISTED headings), exact entry text, kept title, idempotence. "
    "C20 (table of contents numbering): TOC._header_numbering, the counter bookkeeping behind every filled entry, is executed symbolically over level "
    "sequences and compared with a reference outline model (a heading of level L increments counter L and restarts deeper counters; missing shallower "
    "counters count as 1), whose numbers are strictly increasing in outline order. "
)
OUTSIDE = ("documents with more than 3 headings at the TOC.fill level, heading texts longer than 2 characters or containing spans, default TOC styles (use_default_styles=True), sequences longer than 5 headings at the numbering level, "
           "the odfdo-headers script's command line, file reading and stdin handling (its headers_document function is covered)")
ASSUMPTIONS = ["levels 1..10"]
TRUSTED = _T
_ENC = ["src/odfdo/toc.py:TOC._header_numbering"]


def _o(name, fn, secs, bounds, env=None, tier="quick"):
    return Obl(name=name, module="h_names", func=fn, timeout=max(90, secs * 4), replay="r_pure:call", tier=tier, env=env or {},
               extra={"_module": "h_names", "_func": fn}, weight=secs, bounds=bounds, encodes=_ENC, stubs=[])


OBLIGATIONS = [
    _o("numbering_noskip", "numbering_noskip", 13, "1..5 headings, levels 1..10, first level 1, no level skipped going down"),
    _o("numbering_any", "numbering_any", 11, "1..3 headings, levels 1..4, any order (skips included)"),
] + [
    Obl(name=f"numbering_deep_{a}", module="h_names", func="numbering_deep", timeout=200, replay="r_h_names:numbering_deep",
        env={"VERIF_A": str(a)}, extra={"a": a}, weight=35, bounds=f"3 headings: level {a}, then two arbitrary levels 1..10",
        encodes=_ENC, stubs=[]) for a in range(1, 11)
]


_AENC = ["src/odfdo/toc.py:TOC.fill,_header_numbering,TOC.__init__,body (property)", "src/odfdo/body.py:Body.headers", "src/odfdo/header.py:Header.__init__",
         "src/odfdo/paragraph.py:Paragraph.__init__,append_plain_text", "src/odfdo/element.py:document_body,get_attribute_integer,inner_text"]
_ASTUB = ["/verif/shadow/lxml (symdom)", "symsupport.SymEText/ETextShim, uncached xpath_compile"]
for _pos in (0, 3):
    for _out in (0, 1, 2, 3):
        OBLIGATIONS.append(Obl(name=f"toc_levels_pos{_pos}_outline{_out}", module="h_toc", func="toc_levels", shadow=True, timeout=400,
                               env={"VERIF_TOC_POS": str(_pos), "VERIF_TOC_OUTLINE": str(_out)}, extra={"toc_pos": _pos, "outline": _out},
                               replay="r_h_toc:toc_levels", weight=75, tier="quick" if (_pos == 0 or _out == 2) else "thorough",
                               bounds=f"3 headings with levels 1..3 each (symbolic), outline level {_out}, TOC {'before' if _pos == 0 else 'after'} the headings",
                               encodes=_AENC, stubs=_ASTUB))
OBLIGATIONS += [
    Obl(name="toc_twice", module="h_toc", func="toc_twice", shadow=True, timeout=200, replay="r_h_toc:toc_twice", weight=27,
        bounds="3 headings (levels 1, 1..2, 1..3), outline 1..2, TOC between the headings; fill; fill", encodes=_AENC, stubs=_ASTUB),
] + [
    Obl(name=f"toc_relevel_from{_o1}", module="h_toc", func="toc_relevel", shadow=True, timeout=600, env={"VERIF_TOC_OUTLINE": str(_o1)}, extra={"o1": _o1},
        replay="r_h_toc:toc_relevel", weight=80,
        bounds=f"3 headings (levels 1, 1..2, 1..3), outline level {_o1} at construction, fill, outline_level set to o2 in 0..2 through the property, fill again", encodes=_AENC, stubs=_ASTUB)
    for _o1 in range(3)
] + [
    Obl(name="toc_text", module="h_toc", func="toc_text", shadow=True, timeout=400, replay="r_h_toc:toc_text", weight=90,
        bounds="2 headings, the second with a symbolic text of <= 2 characters over {a, space}, outline 0..2", encodes=_AENC, stubs=_ASTUB),
]

for _o in range(3):
    for _sp in (0, 1):
        OBLIGATIONS.append(Obl(name=f"tool_outline_depth{_o}_{'span' if _sp else 'plain'}", module="h_toc", func="tool_outline", shadow=True, timeout=900,
                               env={"VERIF_TOC_OUTLINE": str(_o), "VERIF_SPAN": str(_sp)}, extra={"outline": _o, "in_span": bool(_sp)}, replay="r_h_toc:tool_outline", weight=160,
                               tier="quick" if (_o, _sp) in ((0, 1), (2, 0)) else "thorough",
                               bounds=(f"odfdo-headers' headers_document(document, depth={_o if _o else 999}) on a Document over the in-memory container: 3 headings (levels 1, 1..2, 1..3), the second "
                                       f"with a symbolic text of <= 2 characters over {{a, space}} {'inside a span' if _sp else 'as its own text'}; printed lines = outline model used for the TOC"),
                               encodes=["src/odfdo/scripts/headers.py:headers_document,header_numbering", "src/odfdo/header.py:Header.__init__,__str__", "src/odfdo/body.py:Body.headers"] + _AENC[:1],
                               stubs=_ASTUB + ["memdoc.MemContainer (in-memory container)", "sys.stdout replaced by a recorder"]))
