from props.common import TRUSTED as _T
from vlib.runner import Obl

PROPERTY = "C20"
EXPLANATION = (
    "C20 (table of contents numbering): TOC._header_numbering, the counter bookkeeping behind every filled entry, is executed symbolically over level "
    "sequences and compared with a reference outline model (a heading of level L increments counter L and restarts deeper counters; missing shallower "
    "counters count as 1), whose numbers are strictly increasing in outline order. "
)
OUTSIDE = ("TOC.fill's selection by outline level, entry text and idempotence (pending symdom obligations), sequences longer than 5 headings, "
           "the odfdo-headers script")
ASSUMPTIONS = ["levels 1..10"]
TRUSTED = _T
_ENC = ["src/odfdo/toc.py:TOC._header_numbering"]


def _o(name, fn, secs, bounds, env=None, tier="quick"):
    return Obl(name=name, module="h_names", func=fn, timeout=max(90, secs * 4), replay="r_pure:call", tier=tier, env=env or {},
               extra={"_module": "h_names", "_func": fn}, weight=secs, bounds=bounds, encodes=_ENC, stubs=[])


OBLIGATIONS = [
    _o("numbering_noskip", "numbering_noskip", 13, "1..5 headings, levels 1..10, first level 1, no level skipped going down"),
    _o("numbering_any", "numbering_any", 11, "1..3 headings, levels 1..4, any order (skips included)"),
] + [
    Obl(name=f"numbering_deep_{a}", module="h_names", func="numbering_deep", timeout=200, replay="r_h_names:numbering_deep",
        env={"VERIF_A": str(a)}, extra={"a": a}, weight=35, bounds=f"3 headings: level {a}, then two arbitrary levels 1..10",
        encodes=_ENC, stubs=[]) for a in range(1, 11)
]
