from props.common import TRUSTED as _T
from vlib.runner import Obl

PROPERTY = "C16"
EXPLANATION = (
    "C16 (search and replace act as the regular expression says): the real Element.replace (count-only, replace, formatted=True), search, search_first, "
    "search_all, match, text_at on the lxml model; tree <p>t0<span>t1</span>ab</p> with symbolic t0, t1; count = sum over text runs of the non-overlapping "
    "matches, each run afterwards = re.sub of its former content with skeleton and neighbours untouched, search positions index the concatenated text, "
    "formatted replacement yields white-space normal form reading as the replaced text. "
)
OUTSIDE = ("text runs longer than 2 characters over {a, b}; patterns outside the concrete family {a, ab, a+, [ab], b$, ^a, a|bb} (none can match the empty string); "
           "the regular-expression engine itself (CrossHair's model of re on both sides); scripts/replace.py and highlight.py")
ASSUMPTIONS = ["replacement strings of <= 1 character over {x, space}"]
TRUSTED = _T + ["CrossHair's model of the re module"]
_ENC = ["src/odfdo/element.py:Element.replace,search,search_first,search_all,match,text_at,text_recursive,inner_text,xpath",
        "src/odfdo/paragraph.py:Paragraph.append_plain_text (formatted=True path)"]
_STUB = ["/verif/shadow/lxml (symdom)", "symsupport.SymEText/ETextShim, uncached xpath_compile"]
PATS = ["a", "ab", "a+", "[ab]", "b$", "^a", "a|bb"]

OBLIGATIONS = []
for _i, _p in enumerate(PATS):
    _q = "quick" if _i in (0, 2, 4, 5) else "thorough"
    for _fn, _secs in (("repl_count", 15), ("repl_sub", 40), ("search_pos", 25), ("search_after_edit", 160)):
        OBLIGATIONS.append(Obl(name=f"{_fn}_pat{_i}", module="h_repl", func=_fn, shadow=True, timeout=max(120, _secs * 5),
                               tier=_q if (_fn != "search_after_edit" or _i in (0, 4)) else "thorough",
                               env={"VERIF_PAT": str(_i)}, extra={"pat": _i}, replay="r_h_repl:" + _fn, weight=_secs,
                               bounds=f"pattern {_p!r}; t0, t1 of <= 2 characters over {{a, b}}", encodes=_ENC, stubs=_STUB))
for _new in ("", " "):
    OBLIGATIONS.append(Obl(name=f"repl_formatted_{'empty' if not _new else 'space'}", module="h_repl", func="repl_formatted", shadow=True, timeout=200,
                           env={"VERIF_NEW": _new}, extra={"new": _new}, replay="r_h_repl:repl_formatted", weight=20,
                           bounds=f"Paragraph(t), t of <= 3 characters over {{a, space, x}}; replace('x', {_new!r}, formatted=True)", encodes=_ENC, stubs=_STUB))
for _new in ("", " "):
    OBLIGATIONS.append(Obl(name=f"repl_formatted_tree_{'empty' if not _new else 'space'}", module="h_repl", func="repl_formatted_tree", shadow=True, timeout=600,
                           env={"VERIF_NEW": _new}, extra={"new": _new}, replay="r_h_repl:repl_formatted_tree", weight=125,
                           bounds=f"<p>t0<span>t1</span>xb</p>, t0 and t1 of <= 2 characters over {{a, space, x}}; replace('x', {_new!r}, formatted=True)", encodes=_ENC, stubs=_STUB))
OBLIGATIONS.append(Obl(name="text_at_pos", module="h_repl", func="text_at_pos", shadow=True, timeout=900, tier="thorough", replay="r_h_repl:text_at_pos", weight=270,
                       bounds="start, end in -2..7", encodes=_ENC[:1], stubs=_STUB))
