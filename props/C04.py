from props.common import TRUSTED as _T
from vlib.runner import Obl

PROPERTY = "C04"
EXPLANATION = (
    "C04 (manifest matches content), manifest half: the real Manifest methods and Document._add_binary_part / del_part on the lxml model with a dict-backed container; "
    "a history of three operations (add a binary part, delete a part, add a path directly, change a media type, delete a part stored at the root of the package) addressing one of two file names is chosen by the solver; "
    "after every step - and in a clone taken at the end - each present file is listed exactly once, nothing absent is listed and the root entry carries the document's media type. "
)
OUTSIDE = ("the zip layer: 'mimetype' first and stored uncompressed, duplicate zip entry names, templates (zipfile/filesystem I/O, not encodable - checked concretely in "
           "the replay only); histories longer than 3 steps (4 in the thorough tier, first operation one of: add a part, delete a part, delete a root-level part); more than two distinct file names")
ASSUMPTIONS = ["two concrete file names, the solver chooses which one each step addresses (so equal and different names are both explored)"]
TRUSTED = _T
_ENC = ["src/odfdo/manifest.py:Manifest.add_full_path,del_full_path,get_media_type,set_media_type,get_paths,_file_entry,make_file_entry",
        "src/odfdo/document.py:Document._add_binary_part,del_part", "src/odfdo/utils/xpath_query.py:xpath_literal"]
_STUB = ["/verif/shadow/lxml (symdom)", "memdoc.MemContainer: dict-backed subclass of odfdo.container.Container (get_part/set_part/del_part/parts; parts lists deleted names too, like the real in-memory container) handed to Document(container)"]
OBLIGATIONS = [
    Obl(name=f"manifest_history_op{_a}{_b}", module="h_manifest", func="manifest_history3", shadow=True, timeout=600, env={"VERIF_OP1": str(_a), "VERIF_OP2": str(_b)},
        extra={"op1": _a, "op2": _b}, replay="r_h_manifest:manifest_history3", weight=60,
        bounds=f"3 steps then a clone: operation kinds {_a} (on file 0; the two names are symmetric) then {_b}, then a symbolic operation (5 kinds); files of steps 2-3 symbolic (2 names)",
        encodes=_ENC + ["src/odfdo/document.py:Document.clone", "src/odfdo/container.py:Container.clone (in-memory branch)"], stubs=_STUB) for _a in range(5) for _b in range(5)
]
OBLIGATIONS += [
    Obl(name=f"manifest_history4_op{_a}{_b}", module="h_manifest", func="manifest_history4", shadow=True, timeout=1500, tier="thorough",
        env={"VERIF_OP1": str(_a), "VERIF_OP2": str(_b)}, extra={"op1": _a, "op2": _b}, replay="r_h_manifest:manifest_history4", weight=300,
        bounds=f"4 steps: operation kinds {_a} (on file 0) then {_b}, then two symbolic operations (5 kinds); files of steps 2-4 symbolic (2 names)",
        encodes=_ENC, stubs=_STUB) for _a in (0, 1, 4) for _b in range(5)
]
OBLIGATIONS.append(Obl(name="file_entry_attrs", module="h_xpath", func="file_entry_attrs", shadow=True, timeout=300, replay="r_h_xpath:file_entry_attrs", weight=30,
                       bounds="Manifest.make_file_entry(path, media type): path of 1..2 and media type of <= 1 characters, any of U+0020..U+D7FF (&, <, quotes included): the entry carries exactly what it was given",
                       encodes=["src/odfdo/manifest.py:Manifest.make_file_entry"], stubs=_STUB[:1]))
OBLIGATIONS.append(Obl(name="merge_images", module="h_manifest", func="merge_images", shadow=True, timeout=600, replay="r_h_manifest:merge_images", weight=170,
                       bounds="merge_styles_from a document whose styles refer to pictures (a draw:fill-image and/or a master page header image - symbolic), once or twice, the picture already present or not",
                       encodes=["src/odfdo/document.py:Document.merge_styles_from,set_part,get_part", "src/odfdo/manifest.py:Manifest.add_full_path,get_media_type"], stubs=_STUB))
