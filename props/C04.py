from props.common import TRUSTED as _T
from vlib.runner import Obl

PROPERTY = "C04"
EXPLANATION = (
    "C04 (manifest matches content), manifest half: the real Manifest methods and Document._add_binary_part / del_part on the lxml model with a dict-backed container; "
    "a history of three operations (add a binary part, delete a part, add a path directly, change a media type) addressing one of two file names is chosen by the solver; "
    "after every step each present file is listed exactly once, nothing absent is listed and the root entry carries the document's media type. "
)
OUTSIDE = ("the zip layer: 'mimetype' first and stored uncompressed, duplicate zip entry names, templates, clone, merge_styles_from (zipfile/filesystem I/O, not encodable - checked concretely in "
           "the replay only); make_file_entry's XML fragment parsing by real lxml (attribute escaping); histories longer than 3 steps; more than two distinct file names")
ASSUMPTIONS = ["two concrete file names, the solver chooses which one each step addresses (so equal and different names are both explored)"]
TRUSTED = _T
_ENC = ["src/odfdo/manifest.py:Manifest.add_full_path,del_full_path,get_media_type,set_media_type,get_paths,_file_entry,make_file_entry",
        "src/odfdo/document.py:Document._add_binary_part,del_part", "src/odfdo/utils/xpath_query.py:xpath_literal"]
_STUB = ["/verif/shadow/lxml (symdom)", "memdoc.MemContainer: dict-backed subclass of odfdo.container.Container (get_part/set_part/del_part/parts; parts lists deleted names too, like the real in-memory container) handed to Document(container)"]
OBLIGATIONS = [
    Obl(name=f"manifest_history_op{_op}", module="h_manifest", func="manifest_history", shadow=True, timeout=600, env={"VERIF_OP1": str(_op)}, extra={"op1": _op, "i1": 0},
        replay="r_h_manifest:manifest_history", weight=110,
        bounds=f"3 steps: first operation kind {_op} on file 0 (the two names are symmetric), then two symbolic operations (4 kinds) each on a symbolic one of 2 files",
        encodes=_ENC, stubs=_STUB) for _op in range(4)
]
