from props.common import TRUSTED as _T
from vlib.runner import Obl

PROPERTY = "C14"
EXPLANATION = (
    "C14 (found again under its name): for each public lookup the real path from the entry point to the XPath text is executed "
    "symbolically on a Body whose get_elements/xpath record the query; the oracle demands the lookup's fixed template with, as predicate "
    "value, an XPath 1.0 string expression (Literal or concat(...)) whose value is the identifier. Position arithmetic of make_xpath_query "
    "against Python list indexing. "
)
OUTSIDE = ("identifiers longer than 3-4 characters (4-5 in the thorough tier); characters below U+0020 or above U+D7FF; that a well-formed [@attr=string] selects exactly the "
           "equal-valued nodes is libxml2's XPath semantics (trusted); _get_between_base id predicates")  # (get_reference_mark/get_references/get_text_change, referenced_text, Document._get_table and make_file_entry are covered below)
ASSUMPTIONS = ["identifier characters in U+0020..U+D7FF (XML-legal without controls), lengths as stated per obligation"]
TRUSTED = _T + ["libxml2's evaluation of a well-formed XPath predicate"]
_ENC = ["src/odfdo/utils/xpath_query.py:make_xpath_query,xpath_literal", "src/odfdo/element.py:_filtered_element,_filtered_elements and the get_* lookups",
        "src/odfdo/body.py:Body.get_table", "src/odfdo/manifest.py:Manifest._file_entry,get_media_type"]
_STUB = ["h_xpath.Cap/CapManifest: Body/Manifest whose get_elements()/xpath() record the query text instead of evaluating it"]

OBLIGATIONS = []
for k in range(20):
    OBLIGATIONS.append(Obl(name=f"lookup_{k}", module="h_xpath", func="lookup_query", timeout=120, env={"VERIF_K": str(k)},
                           replay="r_h_xpath:lookup", extra={"k": k}, weight=15,
                           bounds="identifier of 1..3 characters, each any of U+0020..U+D7FF (quotes, apostrophes, &, <, brackets, non-ASCII included)",
                           encodes=_ENC, stubs=_STUB))
for k in (0, 8, 18):
    OBLIGATIONS.append(Obl(name=f"lookup6_{k}", module="h_xpath", func="lookup_query6", timeout=200, env={"VERIF_K": str(k)},
                           replay="r_h_xpath:lookup", extra={"k": k}, weight=40,
                           bounds="identifier of exactly 4 characters over {a, double quote, apostrophe}", encodes=_ENC, stubs=_STUB))
OBLIGATIONS += [
    Obl(name="direct_two_predicates", module="h_xpath", func="direct_query", timeout=300, replay="r_h_xpath:direct", weight=100,
        bounds="two identifiers (<= 2 and <= 1 characters) in one query", encodes=_ENC[:1], stubs=[]),
    Obl(name="position", module="h_xpath", func="position_query", timeout=60, replay="r_h_xpath:position", weight=5,
        bounds="-100 <= position <= 100", encodes=_ENC[:1], stubs=[]),
    Obl(name="named_range", module="h_xpath", func="named_range_query", timeout=200, replay="r_h_xpath:named_range", weight=40,
        bounds="names of <= 3 characters accepted by the NamedRange.name setter", encodes=["src/odfdo/element.py:get_named_range"], stubs=_STUB),
    Obl(name="manifest", module="h_xpath", func="manifest_query", timeout=200, replay="r_h_xpath:manifest", weight=35,
        bounds="paths of <= 3 characters, any character", encodes=_ENC[3:], stubs=_STUB),
]

# thorough tier: one more character everywhere (VERIF_DEPTH=1), and the quote-alphabet obligation for every lookup
for k in range(20):
    OBLIGATIONS.append(Obl(name=f"lookup_{k}@d1", module="h_xpath", func="lookup_query", timeout=600, tier="thorough", env={"VERIF_K": str(k), "VERIF_DEPTH": "1"},
                           replay="r_h_xpath:lookup", extra={"k": k}, weight=65,
                           bounds="identifier of 1..4 characters, each any of U+0020..U+D7FF", encodes=_ENC, stubs=_STUB))
    if k not in (0, 8, 18):
        OBLIGATIONS.append(Obl(name=f"lookup6_{k}", module="h_xpath", func="lookup_query6", timeout=300, tier="thorough", env={"VERIF_K": str(k)},
                               replay="r_h_xpath:lookup", extra={"k": k}, weight=40,
                               bounds="identifier of exactly 4 characters over {a, double quote, apostrophe}", encodes=_ENC, stubs=_STUB))
    OBLIGATIONS.append(Obl(name=f"lookup6_{k}@d1", module="h_xpath", func="lookup_query6", timeout=900, tier="thorough", env={"VERIF_K": str(k), "VERIF_DEPTH": "1"},
                           replay="r_h_xpath:lookup", extra={"k": k}, weight=130,
                           bounds="identifier of exactly 5 characters over {a, double quote, apostrophe}", encodes=_ENC, stubs=_STUB))
OBLIGATIONS += [
    Obl(name="direct_two_predicates@d1", module="h_xpath", func="direct_query", timeout=1800, tier="thorough", env={"VERIF_DEPTH": "1"}, replay="r_h_xpath:direct", weight=450,
        bounds="two identifiers (<= 3 and <= 2 characters) in one query", encodes=_ENC[:1], stubs=[]),
    Obl(name="named_range@d1", module="h_xpath", func="named_range_query", timeout=600, tier="thorough", env={"VERIF_DEPTH": "1"}, replay="r_h_xpath:named_range", weight=90,
        bounds="names of <= 4 characters accepted by the NamedRange.name setter", encodes=["src/odfdo/element.py:get_named_range"], stubs=_STUB),
    Obl(name="manifest@d1", module="h_xpath", func="manifest_query", timeout=600, tier="thorough", env={"VERIF_DEPTH": "1"}, replay="r_h_xpath:manifest", weight=110,
        bounds="paths of <= 4 characters, any character", encodes=_ENC[3:], stubs=_STUB),
]

_NAMES2 = ["get_reference_mark(name=)", "get_text_change(idx=)", "get_references(name=)"]
for k in range(3):
    OBLIGATIONS.append(Obl(name=f"lookup_twice_{k}", module="h_xpath", func="lookup_twice", timeout=500, env={"VERIF_K2": str(k)}, replay="r_h_xpath:lookup_twice", extra={"k2": k}, weight=100,
                           bounds=f"{_NAMES2[k]}: identifier of 1..3 characters, each any of U+0020..U+D7FF; the identifier filters every branch of the union query",
                           encodes=["src/odfdo/element.py:get_reference_mark,get_references,get_text_change", "src/odfdo/utils/xpath_query.py:xpath_literal"], stubs=_STUB))
OBLIGATIONS += [
    Obl(name="referenced_text_query", module="h_xpath", func="referenced_text_query", timeout=600, replay="r_h_xpath:referenced_text", weight=170,
        bounds="ReferenceMarkStart/End.referenced_text(): mark names of 1..3 characters, any of U+0020..U+D7FF", encodes=["src/odfdo/reference.py:ReferenceMarkStart.referenced_text,ReferenceMarkEnd.referenced_text"],
        stubs=["h_xpath.CapRef: an element with a given name whose xpath() records the query"]),
    Obl(name="document_table_query", module="h_xpath", func="document_table_query", timeout=200, replay="r_h_xpath:document_table", weight=17,
        bounds="Document._get_table(str) (behind get_table_style, set_table_displayed, get_cell_style_properties...): names of 1..3 characters, any of U+0020..U+D7FF (all-digit names included)",
        encodes=["src/odfdo/document.py:Document._get_table", "src/odfdo/body.py:Body.get_table"], stubs=["h_xpath.CapDoc: object whose body is the recording Body"]),
    Obl(name="file_entry_attrs", module="h_xpath", func="file_entry_attrs", shadow=True, timeout=300, replay="r_h_xpath:file_entry_attrs", weight=30,
        bounds="Manifest.make_file_entry(path, media type): path of 1..2 and media type of <= 1 characters, any of U+0020..U+D7FF", encodes=["src/odfdo/manifest.py:Manifest.make_file_entry"], stubs=["/verif/shadow/lxml (symdom)"]),
]
