from props.common import TRUSTED as _T
from vlib.runner import Obl

PROPERTY = "C11"
EXPLANATION = (
    "C11 (saving is neutral), pretty-printing half: the real container.pretty_indent (with the real TEXT_CONTENT table) and XmlPart.custom_pretty_tree on the lxml model. "
    "A paragraph with one or two children of symbolic kind (text:span, text:a, draw:frame, text:note, office:annotation; optionally with a child) and symbolic text/tail values; "
    "the readable text under ODF white-space collapsing, the attributes and the element skeleton are identical before/after indentation; custom_pretty_tree leaves the "
    "part's in-memory tree untouched and indenting again gives the same output. Document.save on a real Document over the in-memory container: every XML part written by a pretty save equals the plain one up to ignorable white space, in-memory trees untouched, an edit of the manifest made in memory is written. Flat XML: the real Container._xml_content on an in-memory Container keeps the structure of the four parts and the image of every frame (embedded as base64 of its own part, linked images untouched). "
)
OUTSIDE = ("folder packaging and the zip writer (file I/O), real lxml serialisation; the generator stamp; more than two children per paragraph, text values longer than 1 character; "
           "office:binary-data wrapping (textwrap); structural children with an empty tail inside a paragraph (known finding C11-pretty-leaks-space)")
ASSUMPTIONS = ["text/tail values in {None, '', 'a', ' '}"]
TRUSTED = _T
_ENC = ["src/odfdo/container.py:pretty_indent,TEXT_CONTENT", "src/odfdo/xmlpart.py:XmlPart.custom_pretty_tree"]
_STUB = ["/verif/shadow/lxml (symdom); nodes built by Element.make_etree_element so that they carry their namespace prefix"]


def _o(fn, secs, bounds, **kw):
    return Obl(name=fn, module="h_pretty", func=fn, shadow=True, timeout=max(700, secs * 4), replay="r_h_pretty:" + fn, weight=secs, bounds=bounds,
               encodes=_ENC, stubs=_STUB, **kw)


OBLIGATIONS = [
    _o("pretty_one", 190, "<p>t<el>t[<child/>]</el>t</p>, 5 element kinds, every text/tail in {None,'','a',' '}"),
] + [
    Obl(name=f"pretty_two_kind{_k}", module="h_pretty", func="pretty_two", shadow=True, timeout=500, env={"VERIF_KIND1": str(_k)}, extra={"kind1": _k},
        replay="r_h_pretty:pretty_two", weight=80, bounds=f"<p>t<el/>t<el>t</el></p>, first child kind {_k} of 5, second child kind symbolic, outside the known-finding region",
        encodes=_ENC, stubs=_STUB) for _k in range(5)
] + [
    _o("pretty_part_pure", 180, "XmlPart over the one-child shapes: custom_pretty_tree twice, in-memory tree compared"),
] + [
    Obl(name=f"save_neutral_t{_k}", module="h_docsave", func="save_neutral", shadow=True, timeout=600, env={"VERIF_K0": str(_k)}, extra={"k0": _k},
        replay="r_h_docsave:save_neutral", weight=80,
        bounds=("Document over an in-memory container: parts touched before saving (content, styles), a manifest entry added in memory, pretty flag of the first save, "
                f"second paragraph text from a list - all symbolic choices (first text the {_k}-th of the list, per process); then a plain save; every XML part written by the "
                "first save equals the plain one up to ignorable white space"),
        encodes=["src/odfdo/document.py:Document.save,get_part,content,styles,body,manifest,_check_manifest_rdf", "src/odfdo/xmlpart.py:XmlPart.serialize,pretty_serialize,custom_pretty_tree,_get_tree,root",
                 "src/odfdo/meta.py:Meta.set_generator_default", "src/odfdo/manifest.py:Manifest.add_full_path"],
        stubs=_STUB + ["h_docsave.MemContainer: dict-backed subclass of Container (get_part/set_part/del_part/parts/save), no zip or filesystem"]) for _k in range(3)
] + [
    Obl(name="flat_xml", module="h_flatxml", func="flat_xml", shadow=True, timeout=600, replay="r_h_flatxml:flat_xml", weight=75,
        bounds=("flat-XML packaging over a real in-memory Container: three frames each showing (symbolic choice) no image, picture A, picture B or an image linked by URL; pretty flag symbolic; "
                "structure of the four parts kept, every frame keeps exactly its image (embedded as base64 of ITS part, or the link untouched)"),
        encodes=["src/odfdo/container.py:Container._xml_content,_encoded_image,set_part,get_part,pretty_indent"], stubs=_STUB),
    _o("pretty_two_region", 50, "companion of known finding C11-pretty-leaks-space", expect="finding", finding="C11-pretty-leaks-space"),
]
