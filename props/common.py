"""Obligation families shared by several properties."""
from vlib.runner import Obl

EC = "src/odfdo/element_cached.py"
VAULT_ENCODES = [
    f"{EC}:set_item_in_vault", f"{EC}:insert_item_in_vault", f"{EC}:delete_item_in_vault",
    f"{EC}:insert_map_once", f"{EC}:_erase_map_once", f"{EC}:make_cache_map", f"{EC}:find_odf_idx",
]
VAULT_STUBS = ["h_vault.Vault/Item: list-backed stand-in for the six vault members the kernel uses "
               "(_indexes, map attribute, _get_element_idx2, index, insert, delete) and for the item's "
               "repeated/_set_repeated/clone"]


def vault_obligations(which: int):
    """K-level obligations on element_cached.py for the conjunct set `which`
    (1: grid semantics, 2: map == XML, 7: repeat validity/structure, 10: frame/aliasing)."""
    out = []
    # (func, replay, timeout, tier)
    table = [
        ("set_n1", "set_n", 60, "quick"), ("set_n2", "set_n", 120, "quick"), ("set_n3", "set_n", 300, "quick"),
        ("set_cross_n2", "set_n", 120, "quick"), ("set_cross_n3", "set_n", 300, "quick"),
        ("insert_n1", "insert_n", 60, "quick"), ("insert_n2", "insert_n", 120, "quick"), ("insert_n3", "insert_n", 200, "quick"),
        ("delete_n1", "delete_n", 60, "quick"), ("delete_n2", "delete_n", 60, "quick"), ("delete_n3", "delete_n", 120, "quick"),
        ("insert_n4", "insert_n", 600, "thorough"), ("delete_n4", "delete_n", 300, "thorough"),
        ("set_n4", "set_n", 1500, "thorough"), ("set_cross_n4", "set_n", 1500, "thorough"),
    ]
    for lead in (0, 1):
        for func, rep, to, tier in table:
            if lead == 1 and tier == "quick" and func.endswith(("n1", "n2")):
                t = "thorough"  # the lead=1 variants of the small shapes add little: thorough only
            else:
                t = tier
            out.append(Obl(
                name=f"vault_{func}_lead{lead}", module="h_vault", func=func, timeout=to, tier=t,
                replay=f"r_h_vault:{rep}", env={"VERIF_WHICH": str(which), "VERIF_LEAD": str(lead)},
                extra={"which": which, "lead": lead},
                bounds=f"{func[-1]} runs, every repeat/position/inserted repeat/probe an unbounded int >= 1 / >= 0; "
                       f"{lead} non-item children in front; cached-wrapper flag and clone flag symbolic",
                encodes=VAULT_ENCODES, stubs=VAULT_STUBS))
    if which in (1, 2):
        out.append(Obl(name="map_lookup_n3", module="h_vault", func="map_lookup_n3", timeout=60,
                       replay="r_h_vault:map_prim", extra={"_func": "map_lookup_n3"},
                       bounds="3 runs, unbounded repeats and probe", encodes=VAULT_ENCODES[3:], stubs=[]))
    if which in (2, 10):
        out.append(Obl(name="map_insert_erase_n3", module="h_vault", func="map_insert_erase_n3", timeout=60,
                       replay="r_h_vault:map_prim", extra={"_func": "map_insert_erase_n3"},
                       bounds="3 runs, unbounded repeats, item index 0..3", encodes=VAULT_ENCODES[3:5], stubs=[]))
    return out


TRUSTED = [
    "CrossHair 0.0.110's model of Python (int, list, bisect, str) and z3 5.1",
    "the stand-ins listed under 'stubs' (the environment of the encoded functions)",
    "the pointwise reference semantics written in the harness (a few lines per operation)",
    "replay on real lxml guards against false alarms only, not against missed violations",
]


# ---------------------------------------------------------------- KT layer (typed-element layer)

import ast as _ast
import json as _json
from pathlib import Path as _Path

_H = _Path(__file__).resolve().parent.parent / "harness"
KT_ENCODES = [
    "src/odfdo/table.py:Table.{set_cell,set_value,insert_cell,append_cell,delete_cell,set_row,insert_row,append_row,delete_row,"
    "set_row_values,insert_column,append_column,delete_column,get_value,get_row,get_cell,_get_row2,_get_row2_base,_update_width,"
    "_translate_*_coordinates,_compute_table_cache,width,height,traverse,_yield_odf_rows}",
    "src/odfdo/row.py:Row.{set_cell,set_value,insert_cell,append_cell,delete_cell,set_cells,set_values,extend_cells,get_cell,get_value,"
    "_get_cell2,_get_cell2_base,traverse,get_values,get_cells,cells,width,_compute_row_cache,clone}",
    "src/odfdo/element_cached.py (all)", "src/odfdo/utils/coordinates.py:convert_coordinates,increment,translate_from_any",
]
KT_STUBS = ["ktable.KBase: list/dict-backed replacements of the lxml-backed Element primitives (children list, attribute dict, "
            "get_elements/_get_element_idx2/elements_repeated_sequence/index/insert/delete/extend/clear/clone/parent), fresh wrapper per lookup",
            "ktable.IntCell/IntColumn: integer-valued leaves replacing odfdo.cell.Cell / odfdo.table.Column (payload, int repeat, x, y)",
            "integer-valued repeated/_set_repeated accessors of KRow/IntCell/IntColumn (the string-valued real ones are exercised on symdom)"]


def _timings():
    p = _H / "timings.json"
    return _json.loads(p.read_text()) if p.exists() else {}


def _kt_index():
    src = (_H / "h_ktab_gen.py").read_text()
    return _ast.literal_eval(src[src.index("INDEX = ") + 8:])


def ktab_obligations(which: int, quick_cap: float, quick_rd: str, templates=("tall", "wide")):
    """Table-level KT obligations for conjunct set `which`.  Quick tier: the `quick_rd`
    (nr = no cached read before the mutation, rd = cached reads first) variants whose measured
    time is <= quick_cap seconds; everything else is thorough."""
    db = _timings()
    out = []
    for fn, op, tname, gname, pname, rd in _kt_index():
        if tname not in templates:
            continue
        if which == 10 and rd == "rd":
            continue
        t = db.get(f"h_ktab_gen.{fn}@{which}")
        secs = t["secs"] if t and t["verdict"] == "holds" else None
        quick = secs is not None and secs <= quick_cap and (rd == quick_rd or op in ('insert_column', 'delete_column'))
        timeout = int(max(90, 4 * secs)) if secs is not None else 900
        out.append(Obl(
            name=fn, module="h_ktab_gen", func=fn, timeout=timeout, tier="quick" if quick else "thorough",
            replay="r_h_ktab:run", env={"VERIF_WHICH": str(which)},
            extra={"op": op, "which": which, "pre_read": rd == "rd"},
            weight=int(secs or 300),
            bounds=f"template {tname} ({'row-runs' if tname == 'tall' else 'cell-runs' if tname == 'wide' else 'row- and cell-runs'} with unbounded symbolic repeats), "
                   f"target partition {gname}, probe partition {pname}, cached reads before the mutation: {rd == 'rd'}; all other ints unbounded",
            encodes=KT_ENCODES, stubs=KT_STUBS))
    return out


KROW = [
    # (func, replay, measured secs all-conjuncts, tier)
    ("krow_set_p0", "set_", 95, "quick"), ("krow_set_p1", "set_", 80, "quick"), ("krow_set_p2", "set_", 45, "quick"),
    ("krow_set_none", "set_none", 28, "quick"), ("krow_set_value", "set_value", 50, "quick"),
    ("krow_insert", "insert", 80, "quick"), ("krow_append", "append", 7, "quick"), ("krow_delete", "delete", 12, "quick"),
    ("krow_set_cells2_p2", "set_cells2", 68, "quick"), ("krow_set_values2", "set_values2", 44, "quick"),
    ("krow_negative", "negative", 26, "quick"),
    ("krow_set_cells2_p0", "set_cells2", 600, "thorough"), ("krow_set_cells2_p1", "set_cells2", 190, "thorough"),
    ("krow_set_n3", "set_", 900, "thorough"), ("krow_insert_n3", "insert", 280, "thorough"), ("krow_delete_n3", "delete", 33, "thorough"),
]


def krow_obligations(which: int):
    out = []
    for fn, rep, secs, tier in KROW:
        out.append(Obl(name=fn, module="h_krow", func=fn, timeout=int(max(90, 4 * secs)), tier=tier,
                       replay=f"r_h_krow:{rep}", env={"VERIF_WHICH": str(which)}, extra={"which": which}, weight=secs,
                       bounds="row of 2 (n3: 3) cell-runs with unbounded symbolic repeats; positions, inserted repeats, probe unbounded",
                       encodes=KT_ENCODES[1:3], stubs=KT_STUBS))
    return out


def krow_reader_obligations():
    return [
        Obl(name="krow_get_cell", module="h_krow", func="krow_get_cell", timeout=90, replay="r_h_krow:get_cell", weight=7,
            bounds="row of 2 cell-runs, unbounded repeats/positions", encodes=KT_ENCODES[1:2], stubs=KT_STUBS),
        Obl(name="krow_readers_small", module="h_krow", func="krow_readers_small", timeout=240, replay="r_h_krow:readers_small", weight=40,
            bounds="row of 2 cell-runs, repeats <= 2, start/end <= 5 (expanding readers loop over every position)",
            encodes=KT_ENCODES[1:2], stubs=KT_STUBS),
    ]


def ragged_obligations(which: int):
    out = []
    for op, secs in (("delete_column", 60), ("insert_column", 55)):
        fn = f"kt_ragged_{op}"
        out.append(Obl(name=fn, module="h_ktab", func=fn, timeout=300, replay="r_h_ktab:ragged", env={"VERIF_WHICH": str(which)},
                       extra={"op": op, "which": which}, weight=secs,
                       bounds="ragged table: row of w0 cells, r1 rows of w1 cells, max(w0,w1)+extra declared columns, all unbounded symbolic ints",
                       encodes=KT_ENCODES, stubs=KT_STUBS))
    return out


def bulk_obligations(which: int):
    """Table.set_values / set_cells with a 3-row matrix whose middle sub-list may be empty, over the 16
    templates with run lengths in 1..2 (concrete per process)."""
    out = []
    for r0 in (1, 2):
        for r1 in (1, 2):
            for c0 in (1, 2):
                for c1 in (1, 2):
                    for mode in ("values", "cells"):
                        tpl = f"{r0},{r1},{c0},{c1}"
                        quick = (tpl, mode) in (("2,2,2,2", "values"), ("1,2,2,1", "cells"))
                        out.append(Obl(name=f"kt_bulk_set_{mode}_{r0}{r1}{c0}{c1}", module="h_ktab", func="kt_bulk_set", timeout=900, replay="r_h_ktab:bulk",
                                       env={"VERIF_WHICH": str(which), "VERIF_TPL": tpl, "VERIF_BULK": mode}, extra={"tpl": [r0, r1, c0, c1], "mode": mode, "which": which},
                                       weight=200, tier="quick" if quick else "thorough",
                                       bounds=(f"Table.set_{mode}([[7, 8], [5] or [] (symbolic), [6]], (x, y)) on the template with row-runs {r0},{r1} and cell-runs {c0},{c1} after cached reads; "
                                               "x <= 2, y <= 4 (inside, at the edge, beyond), probe <= (4, 7)"),
                                       encodes=KT_ENCODES + ["src/odfdo/table.py:Table.set_values,set_cells", "src/odfdo/row.py:Row.set_values,set_cells"], stubs=KT_STUBS))
    return out


# measured seconds (quiet machine at depth 0 / loaded machine at depth 1) of the h_kget reader obligations
KGET_SECS = {"kget_rows_small": (60, 420), "kget_cells_small_cols": (90, 425), "kget_cells_small_rows": (125, 730), "kget_column_small": (56, 300),
             "kget_columns_range_small": (20, 25), "kget_values_small": (105, 1430), "ktrans_twice_small": (110, 1370), "ktrans_ragged": (55, 325),
             "koptimize": (80, 55), "krstrip": (75, 95), "krstrip_styled_rows": (10, 10), "kget_area_negative_cols": (80, 245), "kget_area_negative_rows": (150, 505)}
KGET_BOUNDS = {"kget_rows_small": "get_rows/traverse(start, end): repeats in 1..{r}, start <= {p}, end <= {p1}",
               "kget_cells_small_cols": "get_cells/get_values(area): plain rows, cell-runs in 1..{r}, area corners <= {p}",
               "kget_cells_small_rows": "get_cells/get_values(area): row-runs in 1..{r}, plain cells, area corners <= {p}",
               "kget_column_small": "get_column/get_column_cells/get_column_values: repeats in 1..{r}, x <= {p}",
               "kget_columns_range_small": "get_columns(range): cell-runs in 1..{r}, corners <= {p1}",
               "kget_values_small": "get_values, iter_values, flat, cells, size: repeats in 1..{r}, probe <= {p}",
               "ktrans_twice_small": "transpose twice: repeats in 1..{r}, probe <= {p}", "ktrans_ragged": "ragged transpose twice: widths in 1..{r1}, repeat <= {r}",
               "koptimize": "optimize_width: row-runs in 1..{r1}, trailing empty rows <= {r1}", "krstrip": "rstrip: row-runs in 1..{r1}, trailing empty rows <= {r1}",
               "krstrip_styled_rows": "rstrip with styled empty rows: data rows 1..{r1} + 1..{r1} styled rows",
               "kget_area_negative_cols": "negative column numbers in areas: cell-runs in 1..{r}", "kget_area_negative_rows": "negative row numbers in areas: row-runs in 1..{r}"}


def kget_obligations(names, quick=(), deep=True, encodes=None):
    """reader obligations of h_kget: depth 0 (quick for the names listed in `quick`, else thorough) and,
    with `deep`, the same at VERIF_DEPTH=1 (repeats to 3, positions to 6) in the thorough tier"""
    out = []
    enc = encodes or (KT_ENCODES[:2] + ["src/odfdo/table.py:Table readers (get_cell/row/cells/rows/values/column(s), traverse, iter_values, transpose, rstrip, optimize_width)"])
    for fn in names:
        s0, s1 = KGET_SECS[fn]
        out.append(Obl(name=fn, module="h_kget", func=fn, timeout=max(120, s0 * 4), replay="r_h_kget:" + fn, tier="quick" if fn in quick else "thorough", weight=s0,
                       bounds=KGET_BOUNDS[fn].format(r=2, r1=3, p=4, p1=5), encodes=enc, stubs=KT_STUBS))
        if deep:
            out.append(Obl(name=fn + "@d1", module="h_kget", func=fn, timeout=max(300, s1 * 3), replay="r_h_kget:" + fn, tier="thorough", weight=s1, env={"VERIF_DEPTH": "1"},
                           bounds=KGET_BOUNDS[fn].format(r=3, r1=4, p=6, p1=7), encodes=enc, stubs=KT_STUBS))
    return out


def empty_table_obligations():
    """tables without rows, or with rows but no column: the first write / the column that comes back"""
    out = []
    names = ["set_value", "set_cell (repeated)", "append_row (possibly a row without cells) then set_value", "set_row then append_column"]
    for op in range(4):
        out.append(Obl(name=f"kt_empty_first_write_{op}", module="h_ktab", func="kt_empty_first_write", timeout=400, replay="r_h_ktab:empty_first_write",
                       env={"VERIF_EOP": str(op)}, extra={"op": op}, weight=55,
                       bounds=f"Table() without width/height; first write: {names[op]}; x, y <= 3, inserted repeats <= 2, probe <= 5", encodes=KT_ENCODES, stubs=KT_STUBS))
    out.append(Obl(name="kt_no_columns", module="h_ktab", func="kt_no_columns", timeout=300, replay="r_h_ktab:no_columns", weight=26,
                   bounds="template with row-runs in 1..2 after deleting both columns; then set_value / append_column / insert_column / set_column (symbolic choice), x <= 2",
                   encodes=KT_ENCODES, stubs=KT_STUBS))
    return out
