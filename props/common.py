"""Obligation families shared by several properties."""
from vlib.runner import Obl

EC = "src/odfdo/element_cached.py"
VAULT_ENCODES = [
    f"{EC}:set_item_in_vault", f"{EC}:insert_item_in_vault", f"{EC}:delete_item_in_vault",
    f"{EC}:insert_map_once", f"{EC}:_erase_map_once", f"{EC}:make_cache_map", f"{EC}:find_odf_idx",
]
VAULT_STUBS = ["h_vault.Vault/Item: list-backed stand-in for the six vault members the kernel uses "
               "(_indexes, map attribute, _get_element_idx2, index, insert, delete) and for the item's "
               "repeated/_set_repeated/clone"]


def vault_obligations(which: int):
    """K-level obligations on element_cached.py for the conjunct set `which`
    (1: grid semantics, 2: map == XML, 7: repeat validity/structure, 10: frame/aliasing)."""
    out = []
    # (func, replay, timeout, tier)
    table = [
        ("set_n1", "set_n", 60, "quick"), ("set_n2", "set_n", 120, "quick"), ("set_n3", "set_n", 300, "quick"),
        ("set_cross_n2", "set_n", 120, "quick"), ("set_cross_n3", "set_n", 300, "quick"),
        ("insert_n1", "insert_n", 60, "quick"), ("insert_n2", "insert_n", 120, "quick"), ("insert_n3", "insert_n", 200, "quick"),
        ("delete_n1", "delete_n", 60, "quick"), ("delete_n2", "delete_n", 60, "quick"), ("delete_n3", "delete_n", 120, "quick"),
        ("insert_n4", "insert_n", 600, "thorough"), ("delete_n4", "delete_n", 300, "thorough"),
        ("set_n4", "set_n", 1500, "thorough"), ("set_cross_n4", "set_n", 1500, "thorough"),
    ]
    for lead in (0, 1):
        for func, rep, to, tier in table:
            if lead == 1 and tier == "quick" and func.endswith(("n1", "n2")):
                t = "thorough"  # the lead=1 variants of the small shapes add little: thorough only
            else:
                t = tier
            out.append(Obl(
                name=f"vault_{func}_lead{lead}", module="h_vault", func=func, timeout=to, tier=t,
                replay=f"r_h_vault:{rep}", env={"VERIF_WHICH": str(which), "VERIF_LEAD": str(lead)},
                extra={"which": which, "lead": lead},
                bounds=f"{func[-1]} runs, every repeat/position/inserted repeat/probe an unbounded int >= 1 / >= 0; "
                       f"{lead} non-item children in front; cached-wrapper flag and clone flag symbolic",
                encodes=VAULT_ENCODES, stubs=VAULT_STUBS))
    if which in (1, 2):
        out.append(Obl(name="map_lookup_n3", module="h_vault", func="map_lookup_n3", timeout=60,
                       replay="r_h_vault:map_prim", extra={"_func": "map_lookup_n3"},
                       bounds="3 runs, unbounded repeats and probe", encodes=VAULT_ENCODES[3:], stubs=[]))
    if which in (2, 10):
        out.append(Obl(name="map_insert_erase_n3", module="h_vault", func="map_insert_erase_n3", timeout=60,
                       replay="r_h_vault:map_prim", extra={"_func": "map_insert_erase_n3"},
                       bounds="3 runs, unbounded repeats, item index 0..3", encodes=VAULT_ENCODES[3:5], stubs=[]))
    return out


TRUSTED = [
    "CrossHair 0.0.110's model of Python (int, list, bisect, str) and z3 5.1",
    "the stand-ins listed under 'stubs' (the environment of the encoded functions)",
    "the pointwise reference semantics written in the harness (a few lines per operation)",
    "replay on real lxml guards against false alarms only, not against missed violations",
]


# ---------------------------------------------------------------- KT layer (typed-element layer)

import ast as _ast
import json as _json
from pathlib import Path as _Path

_H = _Path(__file__).resolve().parent.parent / "harness"
KT_ENCODES = [
    "src/odfdo/table.py:Table.{set_cell,set_value,insert_cell,append_cell,delete_cell,set_row,insert_row,append_row,delete_row,"
    "set_row_values,insert_column,append_column,delete_column,get_value,get_row,get_cell,_get_row2,_get_row2_base,_update_width,"
    "_translate_*_coordinates,_compute_table_cache,width,height,traverse,_yield_odf_rows}",
    "src/odfdo/row.py:Row.{set_cell,set_value,insert_cell,append_cell,delete_cell,set_cells,set_values,extend_cells,get_cell,get_value,"
    "_get_cell2,_get_cell2_base,traverse,get_values,get_cells,cells,width,_compute_row_cache,clone}",
    "src/odfdo/element_cached.py (all)", "src/odfdo/utils/coordinates.py:convert_coordinates,increment,translate_from_any",
]
KT_STUBS = ["ktable.KBase: list/dict-backed replacements of the lxml-backed Element primitives (children list, attribute dict, "
            "get_elements/_get_element_idx2/elements_repeated_sequence/index/insert/delete/extend/clear/clone/parent), fresh wrapper per lookup",
            "ktable.IntCell/IntColumn: integer-valued leaves replacing odfdo.cell.Cell / odfdo.table.Column (payload, int repeat, x, y)",
            "integer-valued repeated/_set_repeated accessors of KRow/IntCell/IntColumn (the string-valued real ones are exercised on symdom)"]


def _timings():
    p = _H / "timings.json"
    return _json.loads(p.read_text()) if p.exists() else {}


def _kt_index():
    src = (_H / "h_ktab_gen.py").read_text()
    return _ast.literal_eval(src[src.index("INDEX = ") + 8:])


def ktab_obligations(which: int, quick_cap: float, quick_rd: str, templates=("tall", "wide")):
    """Table-level KT obligations for conjunct set `which`.  Quick tier: the `quick_rd`
    (nr = no cached read before the mutation, rd = cached reads first) variants whose measured
    time is <= quick_cap seconds; everything else is thorough."""
    db = _timings()
    out = []
    for fn, op, tname, gname, pname, rd in _kt_index():
        if tname not in templates:
            continue
        if which == 10 and rd == "rd":
            continue
        t = db.get(f"h_ktab_gen.{fn}@{which}")
        secs = t["secs"] if t and t["verdict"] == "holds" else None
        quick = secs is not None and secs <= quick_cap and (rd == quick_rd or op in ('insert_column', 'delete_column'))
        timeout = int(max(90, 4 * secs)) if secs is not None else 900
        out.append(Obl(
            name=fn, module="h_ktab_gen", func=fn, timeout=timeout, tier="quick" if quick else "thorough",
            replay="r_h_ktab:run", env={"VERIF_WHICH": str(which)},
            extra={"op": op, "which": which, "pre_read": rd == "rd"},
            weight=int(secs or 300),
            bounds=f"template {tname} ({'row-runs' if tname == 'tall' else 'cell-runs' if tname == 'wide' else 'row- and cell-runs'} with unbounded symbolic repeats), "
                   f"target partition {gname}, probe partition {pname}, cached reads before the mutation: {rd == 'rd'}; all other ints unbounded",
            encodes=KT_ENCODES, stubs=KT_STUBS))
    return out


KROW = [
    # (func, replay, measured secs all-conjuncts, tier)
    ("krow_set_p0", "set_", 95, "quick"), ("krow_set_p1", "set_", 80, "quick"), ("krow_set_p2", "set_", 45, "quick"),
    ("krow_set_none", "set_none", 28, "quick"), ("krow_set_value", "set_value", 50, "quick"),
    ("krow_insert", "insert", 80, "quick"), ("krow_append", "append", 7, "quick"), ("krow_delete", "delete", 12, "quick"),
    ("krow_set_cells2_p2", "set_cells2", 68, "quick"), ("krow_set_values2", "set_values2", 44, "quick"),
    ("krow_negative", "negative", 26, "quick"),
    ("krow_set_cells2_p0", "set_cells2", 600, "thorough"), ("krow_set_cells2_p1", "set_cells2", 190, "thorough"),
    ("krow_set_n3", "set_", 900, "thorough"), ("krow_insert_n3", "insert", 280, "thorough"), ("krow_delete_n3", "delete", 33, "thorough"),
]


def krow_obligations(which: int):
    out = []
    for fn, rep, secs, tier in KROW:
        out.append(Obl(name=fn, module="h_krow", func=fn, timeout=int(max(90, 4 * secs)), tier=tier,
                       replay=f"r_h_krow:{rep}", env={"VERIF_WHICH": str(which)}, extra={"which": which}, weight=secs,
                       bounds="row of 2 (n3: 3) cell-runs with unbounded symbolic repeats; positions, inserted repeats, probe unbounded",
                       encodes=KT_ENCODES[1:3], stubs=KT_STUBS))
    return out


def krow_reader_obligations():
    return [
        Obl(name="krow_get_cell", module="h_krow", func="krow_get_cell", timeout=90, replay="r_h_krow:get_cell", weight=7,
            bounds="row of 2 cell-runs, unbounded repeats/positions", encodes=KT_ENCODES[1:2], stubs=KT_STUBS),
        Obl(name="krow_readers_small", module="h_krow", func="krow_readers_small", timeout=240, replay="r_h_krow:readers_small", weight=40,
            bounds="row of 2 cell-runs, repeats <= 2, start/end <= 5 (expanding readers loop over every position)",
            encodes=KT_ENCODES[1:2], stubs=KT_STUBS),
    ]


def ragged_obligations(which: int):
    out = []
    for op, secs in (("delete_column", 60), ("insert_column", 55)):
        fn = f"kt_ragged_{op}"
        out.append(Obl(name=fn, module="h_ktab", func=fn, timeout=300, replay="r_h_ktab:ragged", env={"VERIF_WHICH": str(which)},
                       extra={"op": op, "which": which}, weight=secs,
                       bounds="ragged table: row of w0 cells, r1 rows of w1 cells, max(w0,w1)+extra declared columns, all unbounded symbolic ints",
                       encodes=KT_ENCODES, stubs=KT_STUBS))
    return out
