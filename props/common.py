"""Obligation families shared by several properties."""
from vlib.runner import Obl

EC = "src/odfdo/element_cached.py"
VAULT_ENCODES = [
    f"{EC}:set_item_in_vault", f"{EC}:insert_item_in_vault", f"{EC}:delete_item_in_vault",
    f"{EC}:insert_map_once", f"{EC}:_erase_map_once", f"{EC}:make_cache_map", f"{EC}:find_odf_idx",
]
VAULT_STUBS = ["h_vault.Vault/Item: list-backed stand-in for the six vault members the kernel uses "
               "(_indexes, map attribute, _get_element_idx2, index, insert, delete) and for the item's "
               "repeated/_set_repeated/clone"]


def vault_obligations(which: int):
    """K-level obligations on element_cached.py for the conjunct set `which`
    (1: grid semantics, 2: map == XML, 7: repeat validity/structure, 10: frame/aliasing)."""
    out = []
    # (func, replay, timeout, tier)
    table = [
        ("set_n1", "set_n", 60, "quick"), ("set_n2", "set_n", 120, "quick"), ("set_n3", "set_n", 300, "quick"),
        ("set_cross_n2", "set_n", 120, "quick"), ("set_cross_n3", "set_n", 300, "quick"),
        ("insert_n1", "insert_n", 60, "quick"), ("insert_n2", "insert_n", 120, "quick"), ("insert_n3", "insert_n", 200, "quick"),
        ("delete_n1", "delete_n", 60, "quick"), ("delete_n2", "delete_n", 60, "quick"), ("delete_n3", "delete_n", 120, "quick"),
        ("insert_n4", "insert_n", 600, "thorough"), ("delete_n4", "delete_n", 300, "thorough"),
        ("set_n4", "set_n", 1500, "thorough"), ("set_cross_n4", "set_n", 1500, "thorough"),
    ]
    for lead in (0, 1):
        for func, rep, to, tier in table:
            if lead == 1 and tier == "quick" and func.endswith(("n1", "n2")):
                t = "thorough"  # the lead=1 variants of the small shapes add little: thorough only
            else:
                t = tier
            out.append(Obl(
                name=f"vault_{func}_lead{lead}", module="h_vault", func=func, timeout=to, tier=t,
                replay=f"r_h_vault:{rep}", env={"VERIF_WHICH": str(which), "VERIF_LEAD": str(lead)},
                extra={"which": which, "lead": lead},
                bounds=f"{func[-1]} runs, every repeat/position/inserted repeat/probe an unbounded int >= 1 / >= 0; "
                       f"{lead} non-item children in front; cached-wrapper flag and clone flag symbolic",
                encodes=VAULT_ENCODES, stubs=VAULT_STUBS))
    if which in (1, 2):
        out.append(Obl(name="map_lookup_n3", module="h_vault", func="map_lookup_n3", timeout=60,
                       replay="r_h_vault:map_prim", extra={"_func": "map_lookup_n3"},
                       bounds="3 runs, unbounded repeats and probe", encodes=VAULT_ENCODES[3:], stubs=[]))
    if which in (2, 10):
        out.append(Obl(name="map_insert_erase_n3", module="h_vault", func="map_insert_erase_n3", timeout=60,
                       replay="r_h_vault:map_prim", extra={"_func": "map_insert_erase_n3"},
                       bounds="3 runs, unbounded repeats, item index 0..3", encodes=VAULT_ENCODES[3:5], stubs=[]))
    return out


TRUSTED = [
    "CrossHair 0.0.110's model of Python (int, list, bisect, str) and z3 5.1",
    "the stand-ins listed under 'stubs' (the environment of the encoded functions)",
    "the pointwise reference semantics written in the harness (a few lines per operation)",
    "replay on real lxml guards against false alarms only, not against missed violations",
]
