from props.common import TRUSTED as _T
from vlib.runner import Obl

PROPERTY = "C09"
EXPLANATION = (
    "C09 (markup insertion never alters the text): K-seg - the real paragraph._by_regex_offset wrapper (set_span/set_link by offset) and the real "
    "Element._insert/_insert_find_text (marks by character position) run on stub trees whose strings are abstract segment strings, so text-node lengths, "
    "offset, length, position and probe are unbounded symbolic ints; the flattened text is compared pointwise before/after, the inserted element must hold "
    "exactly the designated range and sit exactly at the designated position; an offset beyond the text leaves the tree untouched. "
)
OUTSIDE = ("regex addressing and removal (strip_tags, remove_spans/links, delete keep_tail): pending symdom obligations; _insert_between (tracked changes); "
           "more than 5 text nodes; ranges crossing a text-node boundary (known finding C09-range-crosses-node)")
ASSUMPTIONS = ["three tree shapes: text<el>t</el>tail; text<el>t</el><el>t</el>tail; text<el>t<el>t</el>tail</el>tail"]
TRUSTED = _T
_ENC = ["src/odfdo/paragraph.py:_by_regex_offset (offset branch)", "src/odfdo/element.py:Element._insert,_insert_find_text"]
_STUB = ["h_seg.Seg: abstract segment strings (len, truthiness, slicing with Python clamping)",
         "h_seg.Node/Txt and LNode/Smart/W: stub element/lxml nodes exposing only the members the encoded functions touch; "
         "the wrapped set_span body is a stub returning a node holding (match, tail)"]


def _o(fn, rep, secs, bounds, extra, **kw):
    return Obl(name=fn, module="h_seg", func=fn, timeout=max(90, secs * 4), replay="r_h_seg:" + rep, weight=secs,
               bounds=bounds, encodes=_ENC, stubs=_STUB, extra=extra, **kw)


U = "all lengths, offset, length/position and probe unbounded symbolic ints"
OBLIGATIONS = [
    _o("seg_preserve_A", "preserve", 17, U, {"kind": "A"}), _o("seg_preserve_B", "preserve", 32, U, {"kind": "B"}),
    _o("seg_preserve_C", "preserve", 130, U, {"kind": "C"}),
    _o("seg_exact_A", "exact", 4, U + "; range inside one text node", {"kind": "A", "inside": True}),
    _o("seg_exact_B", "exact", 7, U + "; range inside one text node", {"kind": "B", "inside": True}),
    _o("seg_exact_C", "exact", 18, U + "; range inside one text node", {"kind": "C", "inside": True}),
    _o("seg_insert_A", "insert", 7, U, {"kind": "A"}), _o("seg_insert_B", "insert", 8, U, {"kind": "B"}), _o("seg_insert_C", "insert", 30, U, {"kind": "C"}),
    _o("seg_insert_end", "insert_end", 1, U, {}),
    _o("seg_cross_A", "exact", 2, "companion of known finding C09-range-crosses-node", {"kind": "A", "inside": False},
       expect="finding", finding="C09-range-crosses-node"),
]
