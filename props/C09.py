from props.common import TRUSTED as _T
from vlib.runner import Obl

PROPERTY = "C09"
EXPLANATION = (
    "A-regex: the real set_span(regex), set_bookmark(before/after regex), remove_spans/remove_links (strip_tags) and delete(keep_tail) on the lxml model over "
    "<p>t0<a>t1<span>t2</span>b</a>ab</p> with symbolic runs: text projection preserved, inserted spans hold full matches (one per match), marks sit at the match, "
    "stripping keeps every character (tails of enclosing inline elements included), deleting keeps the tail. "
    "C09 (markup insertion never alters the text): K-seg - the real paragraph._by_regex_offset wrapper (set_span/set_link by offset) and the real "
    "Element._insert/_insert_find_text (marks by character position) run on stub trees whose strings are abstract segment strings, so text-node lengths, "
    "offset, length, position and probe are unbounded symbolic ints; the flattened text is compared pointwise before/after, the inserted element must hold "
    "exactly the designated range and sit exactly at the designated position; an offset beyond the text leaves the tree untouched. "
)
OUTSIDE = ("_insert_between (tracked changes); insert_note/insert_annotation bodies; regexes outside the concrete family; text runs longer than 2 characters in the regex family; "
           "more than 5 text nodes; ranges crossing a text-node boundary (known finding C09-range-crosses-node)")
ASSUMPTIONS = ["three tree shapes: text<el>t</el>tail; text<el>t</el><el>t</el>tail; text<el>t<el>t</el>tail</el>tail"]
TRUSTED = _T
_ENC = ["src/odfdo/paragraph.py:_by_regex_offset (offset branch)", "src/odfdo/element.py:Element._insert,_insert_find_text"]
_STUB = ["h_seg.Seg: abstract segment strings (len, truthiness, slicing with Python clamping)",
         "h_seg.Node/Txt and LNode/Smart/W: stub element/lxml nodes exposing only the members the encoded functions touch; "
         "the wrapped set_span body is a stub returning a node holding (match, tail)"]


def _o(fn, rep, secs, bounds, extra, **kw):
    return Obl(name=fn, module="h_seg", func=fn, timeout=max(90, secs * 4), replay="r_h_seg:" + rep, weight=secs,
               bounds=bounds, encodes=_ENC, stubs=_STUB, extra=extra, **kw)


U = "all lengths, offset, length/position and probe unbounded symbolic ints"
OBLIGATIONS = [
    _o("seg_preserve_A", "preserve", 17, U, {"kind": "A"}), _o("seg_preserve_B", "preserve", 32, U, {"kind": "B"}),
    _o("seg_preserve_C", "preserve", 130, U, {"kind": "C"}),
    _o("seg_exact_A", "exact", 4, U + "; range inside one text node", {"kind": "A", "inside": True}),
    _o("seg_exact_B", "exact", 7, U + "; range inside one text node", {"kind": "B", "inside": True}),
    _o("seg_exact_C", "exact", 18, U + "; range inside one text node", {"kind": "C", "inside": True}),
    _o("seg_insert_A", "insert", 7, U, {"kind": "A"}), _o("seg_insert_B", "insert", 8, U, {"kind": "B"}), _o("seg_insert_C", "insert", 30, U, {"kind": "C"}),
    _o("seg_insert_end", "insert_end", 1, U, {}),
    _o("seg_cross_A", "exact", 2, "companion of known finding C09-range-crosses-node", {"kind": "A", "inside": False},
       expect="finding", finding="C09-range-crosses-node"),
]


_AENC = ["src/odfdo/paragraph.py:_by_regex_offset (regex branch),Paragraph.set_span,set_bookmark,remove_spans,remove_links", "src/odfdo/element.py:Element._insert,_insert_before_after,_search_positive_position,strip_tags,_strip_tags,delete,_add_text"]
_ASTUB = ["/verif/shadow/lxml (symdom)", "symsupport.SymEText/ETextShim, uncached xpath_compile"]
_PATS = ["a", "ab", "b+", "[ab]b"]
for _i, _p in enumerate(_PATS):
    for _fn, _rep, _secs in (("span_regex", "span_regex", 95), ("bookmark_regex", "bookmark_regex", 140)):
        OBLIGATIONS.append(Obl(name=f"{_fn}_pat{_i}", module="h_markup", func=_fn, shadow=True, timeout=_secs * 5, env={"VERIF_PAT": str(_i)}, extra={"pat": _i},
                               replay="r_h_markup:" + _rep, weight=_secs, tier="quick" if _i in (1, 2) else "thorough",
                               bounds=f"pattern {_p!r}; t0, t2 of <= 2 and t1 of <= 1 characters over {{a, b}}", encodes=_AENC, stubs=_ASTUB))
for _i, _p in enumerate(_PATS):
    for _pos in (-1, 1, 2):
        OBLIGATIONS.append(Obl(name=f"bookmark_regex_pat{_i}_pos{_pos}", module="h_markup", func="bookmark_regex_pos", shadow=True, timeout=800,
                               env={"VERIF_PAT": str(_i), "VERIF_POS": str(_pos)}, extra={"pat": _i, "pos": _pos}, replay="r_h_markup:bookmark_regex_pos", weight=140,
                               tier="quick" if (_i, _pos) in ((0, -1), (2, 1)) else "thorough",
                               bounds=f"pattern {_p!r}, position={_pos} (which match, counted over the text runs; -1 = last); t0, t2 of <= 2 and t1 of <= 1 characters over {{a, b}}",
                               encodes=_AENC + ["src/odfdo/element.py:Element._search_negative_position"], stubs=_ASTUB))
OBLIGATIONS += [
    Obl(name="strip_spans", module="h_markup", func="strip_spans", shadow=True, timeout=300, replay="r_h_markup:strip_spans", weight=40,
        bounds="t0, t1, t2 of <= 2 characters over {a, b}; remove_spans and remove_links", encodes=_AENC, stubs=_ASTUB),
    Obl(name="delete_keep_tail", module="h_markup", func="delete_keep_tail", shadow=True, timeout=200, replay="r_h_markup:delete_keep_tail", weight=20,
        bounds="t0, t1 and the tail of the deleted element of <= 2 characters over {a, space} (raw runs of spaces as read from a file); inner/outer element, keep_tail flag symbolic", encodes=_AENC, stubs=_ASTUB),
]
