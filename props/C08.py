from props.common import TRUSTED as _T, KT_ENCODES, KT_STUBS, krow_reader_obligations
from vlib.runner import Obl

PROPERTY = "C08"
EXPLANATION = (
    "C08 (getters return addressed, expanded, detached copies): the real Table/Row getters on the typed-element layer. Returned objects must carry the "
    "requested coordinates, no repeat count when the read expands repetitions, and - where documented as copies - be detached: writing to the returned "
    "node record (value, repeat, appended child) leaves the table's node tree and every probe read unchanged. Reads outside the populated area return "
    "empty cells/rows without growing the table. "
)
OUTSIDE = ("expanding getters (traverse, get_rows, get_cells, get_values, columns, get_column_cells) at repeats > 2 (they loop over every position); "
           "real Cell.clone/Element.clone on lxml (replay only); filters by style/content/cell_type")
ASSUMPTIONS = ["two row-runs x two cell-runs template; single-position getters with unbounded ints, expanding getters with repeats in 1..2"]
TRUSTED = _T
_E = KT_ENCODES[:2] + ["src/odfdo/table.py:Table.{get_cell,get_row,get_cells,get_rows,traverse,rows,cells,get_column,get_columns,columns,traverse_columns,get_column_cells,get_column_values,get_values,iter_values}"]


def _o(fn, secs, bounds, tier="quick", **kw):
    return Obl(name=fn, module="h_kget", func=fn, timeout=max(90, secs * 4), replay="r_h_kget:" + fn, tier=tier, weight=secs,
               bounds=bounds, encodes=_E, stubs=KT_STUBS, **kw)


OBLIGATIONS = krow_reader_obligations() + [
    _o("kget_cell", 50, "unbounded repeats/coordinates/probe; clone and keep_repeated flags symbolic"),
    _o("kget_cell_beyond_width", 10, "unbounded; x beyond the width"),
    _o("kget_row", 13, "unbounded; y in and beyond the height; clone flag symbolic"),
    _o("kget_rows_small", 60, "repeats in 1..2, start <= 4, end <= 5"),
    _o("kget_cells_small_cols", 90, "plain rows, cell-runs in 1..2, area corners <= 4"),
    _o("kget_cells_small_rows", 125, "row-runs in 1..2, plain cells, area corners <= 4"),
    _o("kget_column_small", 56, "repeats in 1..2, x <= 4"),
    _o("kget_columns_range_small", 20, "cell-runs in 1..2, column range corners <= 5"),
    _o("kget_empty_table", 5, "table without rows / row without cells, positions in -3..3 (negative forms included)"),
    _o("kget_rows_small_live", 5, "companion of known finding C08-traverse-live-row", expect="finding", finding="C08-traverse-live-row"),
]


# A-level: the real Row/Cell classes (string-valued repeat accessors, Cell.clone) on the lxml model
for _fn in ['arow_get_clone']:
    _secs = {'arow_set': 255, 'arow_insert': 235, 'arow_delete': 35, 'arow_get_clone': 40}[_fn]
    OBLIGATIONS.append(Obl(name=_fn, module="h_arow", func=_fn, shadow=True, timeout=_secs * 4, replay="r_h_arow:" + _fn, weight=_secs,
                           tier="quick" if _secs < 100 else "thorough",
                           bounds="real Row of two cell-runs with repeats in 1..3, positions <= 7, inserted repeat <= 3, probe <= 10",
                           encodes=["src/odfdo/row.py:Row (all methods used, incl. repeated accessors)", "src/odfdo/cell.py:Cell.__init__,repeated,_set_repeated,clone,get_value,set_value",
                                    "src/odfdo/element.py:Element.insert,delete,index,clone,_get_element_idx2,elements_repeated_sequence", "src/odfdo/element_cached.py (all)"],
                           stubs=["/verif/shadow/lxml (symdom)"]))

# thorough tier: the same reader obligations with repeats up to 3 and positions up to 6 (VERIF_DEPTH=1)
from props.common import kget_obligations as _kg  # noqa: E402

OBLIGATIONS += [o for o in _kg(['kget_rows_small', 'kget_cells_small_cols', 'kget_cells_small_rows', 'kget_column_small', 'kget_columns_range_small']) if o.name.endswith("@d1")]
