from vlib.runner import Obl
from props.common import empty_table_obligations, ragged_obligations, bulk_obligations, kget_obligations, vault_obligations, krow_obligations, ktab_obligations, TRUSTED as _T

PROPERTY = "C02"
EXPLANATION = (
    "C02 (live answers = answers of the table's own XML read afresh): after one operation from an arbitrary valid state "
    "the position map equals make_cache_map(XML), a read through the map equals the read of the XML by an independent "
    "run-length walk, and no cached wrapper survives the mutation. "
)
OUTSIDE = "text serialisation and re-parsing by real lxml and Document.save/reload (done concretely in replays only)"
ASSUMPTIONS = ["pre-states are run-length encodings with repeats >= 1 whose maps equal make_cache_map(XML)"]
TRUSTED = _T
OBLIGATIONS = vault_obligations(2) + krow_obligations(2) + ktab_obligations(2, 60, 'rd')


# A-level: the real Row/Cell classes (string-valued repeat accessors, Cell.clone) on the lxml model
for _fn in ['arow_set', 'arow_insert']:
    _secs = {'arow_set': 255, 'arow_insert': 235, 'arow_delete': 35, 'arow_get_clone': 40}[_fn]
    OBLIGATIONS.append(Obl(name=_fn, module="h_arow", func=_fn, shadow=True, timeout=_secs * 4, replay="r_h_arow:" + _fn, weight=_secs,
                           tier="quick" if _secs < 100 else "thorough",
                           bounds="real Row of two cell-runs with repeats in 1..3, positions <= 7, inserted repeat <= 3, probe <= 10",
                           encodes=["src/odfdo/row.py:Row (all methods used, incl. repeated accessors)", "src/odfdo/cell.py:Cell.__init__,repeated,_set_repeated,clone,get_value,set_value",
                                    "src/odfdo/element.py:Element.insert,delete,index,clone,_get_element_idx2,elements_repeated_sequence", "src/odfdo/element_cached.py (all)"],
                           stubs=["/verif/shadow/lxml (symdom)"]))

for _fn in ['arow_set_small']:
    OBLIGATIONS.append(Obl(name=_fn, module="h_arow", func=_fn, shadow=True, timeout=600, replay="r_h_arow:" + _fn, weight=130,
                           bounds="real Row of two cell-runs with repeats in 1..2, positions <= 4, inserted repeat <= 2, probe <= 6",
                           encodes=["src/odfdo/row.py:Row", "src/odfdo/cell.py:Cell.repeated,_set_repeated,clone", "src/odfdo/element_cached.py (all)"],
                           stubs=["/verif/shadow/lxml (symdom)"]))

OBLIGATIONS += ragged_obligations(2)
OBLIGATIONS += bulk_obligations(2)
# whole-table transformations also leave the live maps equal to those of the XML read afresh
OBLIGATIONS += kget_obligations(["koptimize", "krstrip"], quick=("koptimize", "krstrip"), deep=False)

OBLIGATIONS += empty_table_obligations()
