from props.common import vault_obligations, krow_obligations, ktab_obligations, TRUSTED as _T

PROPERTY = "C02"
EXPLANATION = (
    "C02 (live answers = answers of the table's own XML read afresh): after one operation from an arbitrary valid state "
    "the position map equals make_cache_map(XML), a read through the map equals the read of the XML by an independent "
    "run-length walk, and no cached wrapper survives the mutation. "
)
OUTSIDE = "text serialisation and re-parsing by real lxml and Document.save/reload (done concretely in replays only)"
ASSUMPTIONS = ["pre-states are run-length encodings with repeats >= 1 whose maps equal make_cache_map(XML)"]
TRUSTED = _T
OBLIGATIONS = vault_obligations(2) + krow_obligations(2) + ktab_obligations(2, 60, 'rd')
