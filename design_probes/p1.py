from odfdo.utils.coordinates import alpha_to_digit, digit_to_alpha, convert_coordinates, increment

def rt_digit(n: int) -> bool:
    """
    pre: 0 <= n <= 20000
    post: _
    """
    return alpha_to_digit(digit_to_alpha(n)) == n

def rt_alpha(s: str) -> bool:
    """
    pre: 1 <= len(s) <= 3
    pre: all('A' <= c <= 'Z' for c in s)
    post: _
    """
    return digit_to_alpha(alpha_to_digit(s)) == s

def conv(x: int, y: int) -> bool:
    """
    pre: 0 <= x <= 20000 and 0 <= y <= 2000000
    post: _
    """
    return convert_coordinates(digit_to_alpha(x) + str(y + 1)) == (x, y)

def incr(v: int, step: int) -> int:
    """
    pre: step >= 0 and -50 <= v
    post: _ >= 0 and (v >= 0 and _ == v or v < 0 and (step == 0 and _ == 0 or step > 0 and 0 <= _ < step and (_ - v) % step == 0))
    """
    return increment(v, step)
