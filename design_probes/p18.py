class ET(str):
    def __init__(self, s):
        self.extra = 1

class W:
    def __init__(self, s): self.s = s
    def __str__(self): return self.s

def sub(s: str, off: int) -> bool:
    """
    pre: len(s) <= 3 and 0 <= off <= 3
    post: _
    """
    e = ET(s)
    return e[:off] + e[off:] == s and e.extra == 1

def wrap(s: str) -> bool:
    """
    pre: len(s) <= 3
    post: _
    """
    w = W(s)
    return str(w) == s and len(str(w)) == len(s)
