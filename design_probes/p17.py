from typing import List
from odfdo.toc import TOC
from odfdo.table import _table_name_check

def ref_numbers(levels):
    counters = {}
    out = []
    for lv in levels:
        for k in list(counters):
            if k > lv:
                del counters[k]
        counters[lv] = counters.get(lv, 0) + 1
        out.append(tuple(counters.get(i, 1) for i in range(1, lv + 1)))
    return out

def numbering(levels: List[int]) -> bool:
    """
    pre: 1 <= len(levels) <= 4
    pre: all(1 <= lv <= 10 for lv in levels)
    pre: levels[0] == 1 and all(levels[i + 1] <= levels[i] + 1 for i in range(len(levels) - 1))
    post: _
    """
    idx = {}
    got = [TOC._header_numbering(idx, lv) for lv in levels]
    exp = [".".join(str(x) for x in t) + "." for t in ref_numbers(levels)]
    return got == exp

def name_check(name: str) -> bool:
    """
    pre: len(name) <= 3
    post: _
    """
    forbidden = "[]*?:/\\\n"
    s = name.strip()
    ok = bool(s) and not any(c in forbidden for c in s) and not s.startswith("'") and not s.endswith("'")
    try:
        r = _table_name_check(name)
        accepted = True
    except ValueError:
        accepted = False
    return accepted == ok and (not accepted or r == s)
