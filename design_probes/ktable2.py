"""E1b probe v2: node/wrapper separation — every lookup returns a FRESH wrapper around a shared node record,
as Element.from_tag / from_tag_for_clone do, so per-wrapper caches (_rmap, _indexes) can go stale like the real ones."""
import odfdo.row as R
import odfdo.table as T
from odfdo.row import Row
from odfdo.table import Table

class Node:
    def __init__(self, kind, payload=None, rep=1):
        self.kind = kind; self.payload = payload; self.rep = rep
        self.kids = []; self.parent = None; self.attrs = {}
    def deepcopy(self):
        n = Node(self.kind, self.payload, self.rep); n.attrs = dict(self.attrs)
        for k in self.kids:
            c = k.deepcopy(); c.parent = n; n.kids.append(c)
        return n

def wrap(node, cache=None):
    if node.kind == "cell": w = IntCell(_node=node)
    elif node.kind == "column": w = IntColumn(_node=node)
    elif node.kind == "row": w = KRow(_node=node)
    else: w = KTable(_node=node)
    if cache is not None and hasattr(w, "_copy_cache"): w._copy_cache(cache)
    return w

def _kind(scheme):
    if scheme in (R._xpath_cell, R._xpath_cell_idx): return "cell"
    if scheme in (T._xpath_row, T._xpath_row_idx): return "row"
    if scheme in (T._xpath_column, T._xpath_column_idx): return "column"
    raise NotImplementedError(scheme)

class KBase:
    def get_elements(self, scheme):
        k = _kind(scheme)
        cache = None
        if hasattr(self, "_tmap") and hasattr(self, "_cmap"):
            cache = (self._tmap, self._cmap, self._rmap) if hasattr(self, "_rmap") else (self._tmap, self._cmap)
        return [wrap(n, cache) for n in self._n.kids if n.kind == k]
    def elements_repeated_sequence(self, scheme, name):
        k = _kind(scheme); out = []; i = -1
        for n in self._n.kids:
            if n.kind == k:
                i += 1; out.append((i, n.rep))
        return out
    def _get_element_idx2(self, scheme, idx):
        k = _kind(scheme); i = -1
        for n in self._n.kids:
            if n.kind == k:
                i += 1
                if i == idx: return wrap(n)
        return None
    def index(self, child):
        for i, n in enumerate(self._n.kids):
            if n is child._n: return i
        raise ValueError("not a child")
    @staticmethod
    def _detach(n):
        if n.parent is not None:
            n.parent.kids = [k for k in n.parent.kids if k is not n]; n.parent = None
    def insert(self, element, xmlposition=None, position=None, start=False):
        assert position is not None
        self._detach(element._n); element._n.parent = self._n; self._n.kids.insert(position, element._n)
    def k_append(self, element):
        self._detach(element._n); element._n.parent = self._n; self._n.kids.append(element._n)
    def extend(self, elements):
        for e in list(elements): self.k_append(e)
    def delete(self, child=None, keep_tail=True):
        if child is None:
            self._detach(self._n); return
        self._n.kids.pop(self.index(child)); child._n.parent = None
    @property
    def parent(self):
        p = self._n.parent
        return None if p is None else wrap(p)
    def get_attribute(self, name): return self._n.attrs.get(name)
    get_attribute_string = get_attribute
    def set_attribute(self, name, value):
        if value is None: self._n.attrs.pop(name, None)
        else: self._n.attrs[name] = value
    def del_attribute(self, name): del self._n.attrs[name]
    def set_style_attribute(self, name, value): self.set_attribute(name, value)
    @property
    def document_body(self): return None
    def __bool__(self): return True
    def _set_repeated(self, r): self._n.rep = 1 if (r is None or r < 2) else r

class IntCell(KBase):
    _tag = "table:table-cell"
    def __init__(self, value=None, repeated=None, _node=None, **kw):
        self._n = _node if _node is not None else Node("cell", value, repeated if (repeated is not None and repeated >= 2) else 1)
        self.x = None; self.y = None
    @property
    def repeated(self): return self._n.rep if self._n.rep >= 2 else None
    @repeated.setter
    def repeated(self, r):
        self._set_repeated(r)
        up = self._n.parent
        if up is not None and up.kind == "row": wrap(up)._compute_row_cache()   # mirrors cell.py:449-466 (fresh wrapper of the parent)
    @property
    def clone(self):
        c = IntCell(_node=self._n.deepcopy()); c.x = self.x; c.y = self.y; return c
    def get_value(self, get_type=False, **kw):
        return (self._n.payload, None) if get_type else self._n.payload
    def is_empty(self, aggressive=False): return self._n.payload is None

class IntColumn(IntCell):
    _tag = "table:table-column"
    def __init__(self, default_cell_style=None, repeated=None, style=None, _node=None, **kw):
        self._n = _node if _node is not None else Node("column", None, repeated if (repeated is not None and repeated >= 2) else 1)
        self.x = None
    @property
    def repeated(self): return self._n.rep if self._n.rep >= 2 else None
    @repeated.setter
    def repeated(self, r):
        self._set_repeated(r)
    @property
    def clone(self):
        c = IntColumn(_node=self._n.deepcopy()); c.x = self.x; return c

class KRow(KBase, Row):
    _append = KBase.k_append
    def __init__(self, width=None, repeated=None, style=None, _node=None, **kw):
        fresh = _node is None
        self._n = Node("row") if fresh else _node
        self._do_init = fresh
        # --- body of Row.__init__ (row.py:78-93) minus the lxml constructor
        self.y = None
        self._indexes = {}
        self._indexes["_rmap"] = {}
        self._compute_row_cache()
        self._tmap = []
        self._cmap = []
        if self._do_init:
            if width is not None:
                for _i in range(width):
                    self.append(IntCell())
            if repeated:
                self.repeated = repeated
            self._compute_row_cache()
    @property
    def repeated(self): return self._n.rep if self._n.rep >= 2 else None
    @repeated.setter
    def repeated(self, r):
        self._set_repeated(r)
        up = self._n.parent
        if up is not None and up.kind == "table":
            upper = wrap(up)            # mirrors row.py:160-183: a fresh wrapper recomputes, then copies into self._tmap
            upper._compute_table_cache()
            del self._tmap[:]; self._tmap.extend(upper._tmap)
    def clear(self):
        for k in self._n.kids: k.parent = None
        self._n.kids = []; self._n.attrs = {}; self._n.rep = 1
        self._rmap = []; self._tmap = []; self._cmap = []
        self._indexes = {"_cmap": {}, "_tmap": {}, "_rmap": {}}
    @property
    def clone(self):
        c = KRow(_node=self._n.deepcopy())
        c.y = self.y
        c._rmap = self._rmap[:]; c._tmap = self._tmap[:]; c._cmap = self._cmap[:]
        return c

class KTable(KBase, Table):
    _append = KBase.k_append
    def __init__(self, name="t", _node=None, **kw):
        self._n = Node("table") if _node is None else _node
        self._do_init = _node is None
        self._indexes = {}
        self._indexes["_cmap"] = {}
        self._indexes["_tmap"] = {}
        self._compute_table_cache()
    def clear(self):
        for k in self._n.kids: k.parent = None
        self._n.kids = []; self._n.attrs = {}
        self._tmap = []; self._cmap = []
        self._indexes = {"_cmap": {}, "_tmap": {}}

R.Cell = IntCell
T.Cell = IntCell; T.Row = KRow; T.Column = IntColumn
