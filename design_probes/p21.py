"""K-level probe for C09: real paragraph._by_regex_offset on abstract segment strings (positions only)."""
import odfdo.paragraph as P

class Seg:
    """abstract string = list of (origin, lo, hi) pieces; supports len, slicing with python clamping"""
    def __init__(self, pieces): self.pieces = pieces
    def __len__(self):
        n = 0
        for _, lo, hi in self.pieces: n = n + (hi - lo)
        return n
    def __bool__(self):
        if len(self) > 0: return True
        return False
    def __getitem__(self, sl):
        n = len(self)
        a = 0 if sl.start is None else sl.start
        b = n if sl.stop is None else sl.stop
        if a < 0: a = max(0, n + a)
        if b < 0: b = max(0, n + b)
        a = min(a, n); b = min(b, n)
        if b < a: b = a
        out = []; pos = 0
        for o, lo, hi in self.pieces:
            l = hi - lo
            s = max(a, pos); e = min(b, pos + l)
            if e > s: out.append((o, lo + (s - pos), lo + (e - pos)))
            pos = pos + l
        return Seg(out)
    def at(self, k):
        pos = 0
        for o, lo, hi in self.pieces:
            l = hi - lo
            if k < pos + l: return (o, lo + (k - pos))
            pos = pos + l
        return None

class Node:
    def __init__(self, name, text=None, tail=None):
        self.name = name; self.text = text; self.tail = tail; self.children = []; self.parent = None
    def insert(self, child, position=None):
        child.parent = self; self.children.insert(position, child)
    def index(self, c):
        for i, x in enumerate(self.children):
            if x is c: return i
        raise ValueError
    def __bool__(self): return True
    def xpath(self, q):
        assert q == "descendant::text()"
        out = []
        def walk(n):
            if n.text is not None and len(n.text) > 0: out.append(Txt(n.text, n, True))
            for c in n.children:
                walk(c)
                if c.tail is not None and len(c.tail) > 0: out.append(Txt(c.tail, c, False))
        walk(self); return out

class Txt:
    def __init__(self, seg, parent, is_text): self.seg = seg; self.parent = parent; self._t = is_text
    def __len__(self): return len(self.seg)
    def is_text(self): return self._t

def flat(n):
    pieces = list(n.text.pieces) if n.text is not None else []
    for c in n.children:
        pieces += flat(c)
        if c.tail is not None: pieces += list(c.tail.pieces)
    return pieces

def method(element, match, tail, *a, **k):
    r = Node("new", text=match, tail=tail); return r

wrapped = P._by_regex_offset(method)

def offset_ok(l0: int, l1: int, l2: int, offset: int, length: int, k: int) -> bool:
    """
    pre: 0 <= l0 and 1 <= l1 and 0 <= l2 and 0 <= offset and 0 <= length and 0 <= k < l0 + l1 + l2
    post: _
    """
    p = Node("p", text=Seg([("A", 0, l0)]))
    sp = Node("span", text=Seg([("B", 0, l1)]), tail=Seg([("C", 0, l2)]))
    p.insert(sp, position=0)
    before = Seg(flat(p))
    wrapped(p, offset=offset, length=length)
    after = Seg(flat(p))
    return len(after) == len(before) and after.at(k) == before.at(k)

def find_new(n):
    for c in n.children:
        if c.name == "new": return c
        r = find_new(c)
        if r is not None: return r
    return None

def wraps_exact(l0: int, l1: int, l2: int, offset: int, length: int) -> bool:
    """
    pre: 0 <= l0 and 1 <= l1 and 0 <= l2 and 0 <= offset and 1 <= length and offset + length <= l0 + l1 + l2
    post: _
    """
    p = Node("p", text=Seg([("A", 0, l0)]))
    sp = Node("span", text=Seg([("B", 0, l1)]), tail=Seg([("C", 0, l2)]))
    p.insert(sp, position=0)
    before = Seg(flat(p))
    wrapped(p, offset=offset, length=length)
    new = find_new(p)
    want = before[offset:offset + length]
    return new is not None and new.text.pieces == want.pieces
