import sys
sys.path.insert(0, "/verif/design_probes/fake")
from copy import deepcopy
from odfdo.table import NamedRange, _table_name_check
from odfdo.element import Element
from odfdo.utils.color import hex2rgb, rgb2hex
from odfdo.datatype import Unit

def nr_roundtrip(tn: str, x: int, y: int, z: int, t: int) -> bool:
    """
    pre: 1 <= len(tn) <= 3 and all(c in "a .'" for c in tn)
    pre: 0 <= x <= z <= 800 and 0 <= y <= t <= 2000
    post: _
    """
    try:
        tn2 = _table_name_check(tn)
    except ValueError:
        return True
    nr = NamedRange("nr", (x, y, z, t), tn)
    again = Element.from_tag(deepcopy(nr._Element__element))
    return again.table_name == tn2 and again.crange == (x, y, z, t) and again.start == (x, y) and again.end == (z, t)

def rgb_rt(r: int, g: int, b: int) -> bool:
    """
    pre: 0 <= r <= 255 and 0 <= g <= 255 and 0 <= b <= 255
    post: _
    """
    return hex2rgb(rgb2hex((r, g, b))) == (r, g, b)

def hex_rejects(s: str) -> bool:
    """
    pre: len(s) == 7
    post: _
    """
    try:
        hex2rgb(s)
    except ValueError:
        return True
    return s[0] == "#" and all(c in "0123456789abcdefABCDEF" for c in s[1:])
