from odfdo.element_cached import set_item_in_vault, insert_item_in_vault, delete_item_in_vault, make_cache_map

class Item:
    def __init__(self, payload, repeated=1):
        self.payload = payload
        self.rep = repeated
    @property
    def repeated(self):
        return self.rep if self.rep >= 2 else None
    def _set_repeated(self, r):
        self.rep = 1 if (r is None or r < 2) else r
    @property
    def clone(self):
        return Item(self.payload, self.rep)

class Vault:
    def __init__(self, items):
        self.items = items
        self._indexes = {"_m": {}}
        self._m = make_cache_map([(i, it.rep) for i, it in enumerate(items)])
    def _get_element_idx2(self, scheme, idx):
        if 0 <= idx < len(self.items):
            return self.items[idx]
        return None
    def index(self, item):
        for i, it in enumerate(self.items):
            if it is item:
                return i
        raise ValueError
    def delete(self, item):
        self.items.pop(self.index(item))
    def insert(self, item, position=None):
        self.items.insert(position, item)
    def expand(self):
        out = []
        for it in self.items:
            out.extend([it.payload] * it.rep)
        return out

def set_ok(r0: int, r1: int, r2: int, pos: int, rn: int) -> bool:
    """
    pre: 1 <= r0 <= 50 and 1 <= r1 <= 50 and 1 <= r2 <= 50 and 1 <= rn <= 50
    pre: 0 <= pos < r0 + r1 + r2
    post: _
    """
    v = Vault([Item(0, r0), Item(1, r1), Item(2, r2)])
    before = v.expand()
    set_item_in_vault(pos, Item(9, rn), v, None, "_m")
    model = list(before)
    for i in range(rn):
        if pos + i < len(model):
            model[pos + i] = 9
        else:
            model.append(9)
    xml_map = make_cache_map([(i, it.rep) for i, it in enumerate(v.items)])
    return v.expand() == model and v._m == xml_map and all(it.rep >= 1 for it in v.items)

def set_ok_nooverlap(r0: int, r1: int, r2: int, pos: int, rn: int) -> bool:
    """
    pre: 1 <= r0 <= 50 and 1 <= r1 <= 50 and 1 <= r2 <= 50 and 1 <= rn <= 50
    pre: 0 <= pos < r0 + r1 + r2
    pre: (pos < r0 and pos + rn <= r0) or (r0 <= pos < r0 + r1 and pos + rn <= r0 + r1) or (r0 + r1 <= pos and pos + rn <= r0 + r1 + r2)
    post: _
    """
    return set_ok(r0, r1, r2, pos, rn)
