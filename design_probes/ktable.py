"""Probe: real row.py/table.py/element_cached.py logic over int-valued element primitives (no lxml use, no strings)."""
import odfdo.element as E
import odfdo.row as R
import odfdo.table as T
import odfdo.element_cached as EC
from odfdo.row import Row
from odfdo.table import Table

class IntCell:
    _tag = "table:table-cell"
    def __init__(self, value=None, repeated=None, **kw):
        self.payload = value
        self.rep = repeated if (repeated is not None and repeated >= 2) else 1
        self.x = None; self.y = None; self._kparent = None
    @property
    def repeated(self):
        return self.rep if self.rep >= 2 else None
    @repeated.setter
    def repeated(self, r):
        self._set_repeated(r)
        if self._kparent is not None and hasattr(self._kparent, "_compute_row_cache"):
            self._kparent._compute_row_cache()
    def _set_repeated(self, r):
        self.rep = 1 if (r is None or r < 2) else r
    @property
    def clone(self):
        c = type(self)(self.payload, self.rep); c.x = self.x; c.y = self.y
        return c
    def get_value(self, get_type=False, **kw):
        return (self.payload, None) if get_type else self.payload
    @property
    def value(self): return self.payload
    def is_empty(self, aggressive=False): return self.payload is None
    def __bool__(self): return True

class IntColumn(IntCell):
    _tag = "table:table-column"
    def __init__(self, default_cell_style=None, repeated=None, style=None, **kw):
        IntCell.__init__(self, None, repeated)
    @property
    def repeated(self):
        return self.rep if self.rep >= 2 else None
    @repeated.setter
    def repeated(self, r):
        self._set_repeated(r)
        if self._kparent is not None:
            self._kparent._compute_table_cache()

def _matches(kid, scheme):
    # scheme objects are the module-level compiled xpaths; identify by identity
    if scheme in (R._xpath_cell, R._xpath_cell_idx): return isinstance(kid, IntCell) and not isinstance(kid, IntColumn)
    if scheme in (T._xpath_row, T._xpath_row_idx): return isinstance(kid, KRow)
    if scheme in (T._xpath_column, T._xpath_column_idx): return isinstance(kid, IntColumn)
    raise NotImplementedError(scheme)

class KBase:
    """Element-level primitives over python lists; overrides what Element implements with lxml."""
    def _kinit(self):
        self._kids = []; self._kattrs = {}; self._kparent = None
    def get_elements(self, scheme):
        return [k for k in self._kids if _matches(k, scheme)]
    def elements_repeated_sequence(self, scheme, name):
        out = []; i = -1
        for k in self._kids:
            if _matches(k, scheme):
                i += 1; out.append((i, k.rep))
        return out
    def _get_element_idx2(self, scheme, idx):
        i = -1
        for k in self._kids:
            if _matches(k, scheme):
                i += 1
                if i == idx: return k
        return None
    def index(self, child):
        for i, k in enumerate(self._kids):
            if k is child: return i
        raise ValueError("not a child")
    def insert(self, element, xmlposition=None, position=None, start=False):
        assert position is not None
        self._detach(element); element._kparent = self; self._kids.insert(position, element)
    def k_append(self, element):
        self._detach(element); element._kparent = self; self._kids.append(element)
    def extend(self, elements):
        for e in list(elements): self.k_append(e)
    def delete(self, child=None, keep_tail=True):
        if child is None:
            self._kparent.delete(self); return
        self._kids.pop(self.index(child)); child._kparent = None
    @staticmethod
    def _detach(e):
        p = getattr(e, "_kparent", None)
        if p is not None:
            p._kids = [k for k in p._kids if k is not e]; e._kparent = None
    @property
    def parent(self): return self._kparent
    def get_attribute(self, name): return self._kattrs.get(name)
    def get_attribute_string(self, name): return self._kattrs.get(name)
    def set_attribute(self, name, value):
        if value is None: self._kattrs.pop(name, None)
        else: self._kattrs[name] = value
    def del_attribute(self, name): del self._kattrs[name]
    def set_style_attribute(self, name, value): self.set_attribute(name, value)
    @property
    def document_body(self): return None
    def __bool__(self): return True

class KRow(KBase, Row):
    _append = KBase.k_append
    def __init__(self, width=None, repeated=None, style=None, **kw):
        self._kinit(); self.rep = 1
        self._do_init = True
        self.y = None
        self._indexes = {"_rmap": {}}
        self._compute_row_cache()
        self._tmap = []; self._cmap = []
        if width is not None:
            for _ in range(width): self.append(IntCell())
        if repeated: self.repeated = repeated
        self._compute_row_cache()
    # int-typed repeat storage (replaces the str attribute of row.py:133-183)
    def _set_repeated(self, r): self.rep = 1 if (r is None or r < 2) else r
    @property
    def repeated(self): return self.rep if self.rep >= 2 else None
    @repeated.setter
    def repeated(self, r):
        self._set_repeated(r)
        up = self._kparent
        if up is not None and isinstance(up, KTable):
            up._compute_table_cache()
    def clear(self):
        self._kids = []; self._kattrs = {}
        self._rmap = []; self._tmap = []; self._cmap = []
        self._indexes = {"_cmap": {}, "_tmap": {}, "_rmap": {}}
    @property
    def clone(self):
        c = KRow()
        for k in self._kids: c.k_append(k.clone)
        c.rep = self.rep; c._kattrs = dict(self._kattrs)
        c.y = self.y
        c._rmap = self._rmap[:]; c._tmap = self._tmap[:]; c._cmap = self._cmap[:]
        return c

class KTable(KBase, Table):
    _append = KBase.k_append
    def __init__(self, name="t", **kw):
        self._kinit()
        self._do_init = True
        self._indexes = {"_cmap": {}, "_tmap": {}}
        self._compute_table_cache()
    def clear(self):
        self._kids = []; self._kattrs = {}
        self._tmap = []; self._cmap = []
        self._indexes = {"_cmap": {}, "_tmap": {}}

# constructor names used inside row.py / table.py
R.Cell = IntCell
T.Cell = IntCell; T.Row = KRow; T.Column = IntColumn
