import sys, re
sys.path.insert(0, "/verif/design_probes/fake")
import odfdo.element as E
from odfdo.paragraph import Paragraph
from odfdo.element import Element
from crosshair.libimpl.builtinslib import LazyIntSymbolicStr

class SymEText(LazyIntSymbolicStr):
    def __init__(self, text_result):
        cps = text_result._codepoints if isinstance(text_result, LazyIntSymbolicStr) else list(map(ord, text_result))
        LazyIntSymbolicStr.__init__(self, cps)
        self._parent = text_result.getparent()
        self._is_text = text_result.is_text
        self._is_tail = text_result.is_tail
    @property
    def parent(self):
        if self._parent is None: return None
        return Element.from_tag(tag_or_elem=self._parent)
    def is_text(self): return self._is_text
    def is_tail(self): return self._is_tail
E.EText = SymEText

def replace_ok(t0: str, t2: str, new: str, pat: int) -> bool:
    """
    pre: len(t0) <= 2 and len(t2) <= 2 and len(new) <= 1
    pre: all(c in "ab" for c in t0 + t2) and all(c in "xb" for c in new)
    pre: 0 <= pat <= 3
    post: _
    """
    re.purge()
    pattern = ["a", "ab", "a+", "[ab]"][pat]
    p = Paragraph()
    node = p._Element__element
    node.text = t0
    sp = Element.from_tag("text:span")
    sp._Element__element.text = "ab"
    sp._Element__element.tail = t2
    node.append(sp._Element__element)
    exp0, n0 = re.subn(pattern, new, t0)
    exp1, n1 = re.subn(pattern, new, "ab")
    exp2, n2 = re.subn(pattern, new, t2)
    count = p.replace(pattern, new)
    snode = node._children[0]
    return (count == n0 + n1 + n2 and (node.text or "") == exp0 and (snode.text or "") == exp1
            and (snode.tail or "") == exp2 and len(node._children) == 1)
