from odfdo.row import Row
from odfdo.cell import Cell

def expand(row):
    return [c.get_value() for c in row.traverse()]

def row_set(r0: int, r1: int, x: int, rn: int) -> bool:
    """
    pre: 1 <= r0 <= 3 and 1 <= r1 <= 3 and 1 <= rn <= 3 and 0 <= x <= 7
    post: _
    """
    row = Row()
    row.append_cell(Cell(1, repeated=r0))
    row.append_cell(Cell(2, repeated=r1))
    before = [1] * r0 + [2] * r1
    assert expand(row) == before
    row.set_cell(x, Cell(9, repeated=rn))
    # reference model
    model = list(before)
    while len(model) < x:
        model.append(None)
    for i in range(rn):
        if x + i < len(model):
            model[x + i] = 9
        else:
            model.append(9)
    got = expand(row)
    return got == model and row.width == len(model)
