import sys, time, cvc5
from cvc5 import Kind
def run(path, tlimit=300000):
    slv = cvc5.Solver()
    slv.setOption("tlimit-per", str(tlimit))
    slv.setOption("produce-models", "true")
    p = cvc5.InputParser(slv)
    p.setFileInput(cvc5.InputLanguage.SMT_LIB_2_6, path)
    sm = p.getSymbolManager()
    t0 = time.time()
    res = None
    while True:
        cmd = p.nextCommand()
        if cmd.isNull(): break
        out = cmd.invoke(slv, sm)
        if out.strip(): res = out.strip()
    print(path, res, round(time.time() - t0, 1))
for f in sys.argv[1:]:
    run(f)
