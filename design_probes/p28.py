import sys
sys.path.insert(0, "/verif/design_probes/fake")
from odfdo.table import Table
from odfdo.row import Row
from odfdo.cell import Cell
from p22 import mk, ref

def transpose_twice(r0: int, r1: int, c0: int, c1: int, qx: int, qy: int) -> bool:
    """
    pre: 1 <= r0 <= 2 and 1 <= r1 <= 2 and 1 <= c0 <= 2 and 1 <= c1 <= 2
    pre: 0 <= qx <= 4 and 0 <= qy <= 4
    post: _
    """
    t = mk(r0, r1, c0, c1)
    before = t.get_value((qx, qy))
    size = t.size
    t.transpose()
    mid = t.get_value((qy, qx))
    t.transpose()
    return t.get_value((qx, qy)) == before and mid == before and t.size == size

def rstrip_idem(r0: int, r1: int, c0: int, c1: int, e0: int, e1: int, qx: int, qy: int) -> bool:
    """
    pre: 1 <= r0 <= 2 and 1 <= r1 <= 2 and 1 <= c0 <= 2 and 1 <= c1 <= 2 and 0 <= e0 <= 2 and 0 <= e1 <= 2
    pre: 0 <= qx <= 6 and 0 <= qy <= 6
    post: _
    """
    t = mk(r0, r1, c0, c1)
    if e0 > 0:
        t.append_cell(0, Cell(repeated=e0))
    if e1 > 0:
        t.append_row(Row(width=1, repeated=e1))
    before = t.get_value((qx, qy))
    t.rstrip()
    a = t.get_value((qx, qy)); s1 = t.size
    t.rstrip()
    return a == before and t.size == s1 and t.get_value((qx, qy)) == before and s1 == (c0 + c1, r0 + r1)
