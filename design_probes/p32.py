from ktable import *
from p8 import lookup

def mkrow(r0, r1):
    row = KRow()
    row.append_cell(IntCell(1, r0)); row.append_cell(IntCell(2, r1))
    return row

def krow_set(r0: int, r1: int, x: int, rn: int, q: int) -> bool:
    """
    pre: 1 <= r0 and 1 <= r1 and 1 <= rn and 0 <= x and 0 <= q
    pre: (x + rn <= r0) or (r0 <= x and x + rn <= r0 + r1) or (x >= r0 + r1)
    post: _
    """
    row = mkrow(r0, r1)
    row.set_cell(x, IntCell(9, rn))
    before = [(1, r0), (2, r1)]
    if x <= q < x + rn: exp = 9
    else:
        exp = lookup(before, q)
        if exp == -1: exp = None
    return row.get_value(q) == exp and row.width == max(r0 + r1, x + rn)

def krow_insert(r0: int, r1: int, x: int, rn: int, q: int) -> bool:
    """
    pre: 1 <= r0 and 1 <= r1 and 1 <= rn and 0 <= x and 0 <= q
    post: _
    """
    row = mkrow(r0, r1)
    row.insert_cell(x, IntCell(9, rn))
    before = [(1, r0), (2, r1)]
    if x <= q < x + rn: exp = 9
    elif q < x: exp = lookup(before, q)
    else: exp = lookup(before, q - rn)
    if exp == -1: exp = None
    return row.get_value(q) == exp

def mktab(r0, r1, c0, c1):
    t = KTable()
    ra = KRow(); ra.append_cell(IntCell(1, c0)); ra.append_cell(IntCell(2, c1)); ra.repeated = r0
    rb = KRow(); rb.append_cell(IntCell(3, c0)); rb.append_cell(IntCell(4, c1)); rb.repeated = r1
    t.append_row(ra); t.append_row(rb)
    return t

def ref(r0, c0, c1, qx, qy):
    if qx >= c0 + c1: return None
    base = (1, 2) if qy < r0 else (3, 4)
    return base[0] if qx < c0 else base[1]

def ktab_set_cell(r0: int, r1: int, c0: int, c1: int, x: int, y: int, qx: int, qy: int) -> bool:
    """
    pre: 1 <= r0 and 1 <= r1 and 1 <= c0 and 1 <= c1 and 0 <= x and 0 <= y and 0 <= qx and 0 <= qy
    post: _
    """
    t = mktab(r0, r1, c0, c1)
    t.set_cell((x, y), IntCell(9))
    if qx == x and qy == y: exp = 9
    elif qy < r0 + r1: exp = ref(r0, c0, c1, qx, qy)
    else: exp = None
    return t.get_value((qx, qy)) == exp and t.height == max(r0 + r1, y + 1) and t.width == max(c0 + c1, x + 1)

def ktab_append_cell(r0: int, r1: int, c0: int, c1: int, y: int, qx: int, qy: int) -> bool:
    """
    pre: 1 <= r0 and 1 <= r1 and 1 <= c0 and 1 <= c1 and 0 <= y < r0 + r1 and 0 <= qx and 0 <= qy < r0 + r1
    post: _
    """
    t = mktab(r0, r1, c0, c1)
    t.append_cell(y, IntCell(9))
    if qy == y and qx == c0 + c1: exp = 9
    else: exp = ref(r0, c0, c1, qx, qy)
    return t.get_value((qx, qy)) == exp

def ktab_set_cell_p1(r0: int, r1: int, c0: int, c1: int, x: int, y: int, qx: int, qy: int) -> bool:
    """
    pre: 1 <= r0 and 1 <= r1 and 1 <= c0 and 1 <= c1 and 0 <= x < c0 + c1 and 0 <= y < r0 and 0 <= qx and 0 <= qy
    post: _
    """
    return ktab_set_cell(r0, r1, c0, c1, x, y, qx, qy)

def ktab_set_cell_p2(r0: int, r1: int, c0: int, c1: int, x: int, y: int, qx: int, qy: int) -> bool:
    """
    pre: 1 <= r0 and 1 <= r1 and 1 <= c0 and 1 <= c1 and c0 + c1 <= x and r0 + r1 <= y and 0 <= qx and 0 <= qy
    post: _
    """
    return ktab_set_cell(r0, r1, c0, c1, x, y, qx, qy)
