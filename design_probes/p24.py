import sys
sys.path.insert(0, "/verif/design_probes/fake")
from copy import deepcopy
from odfdo.paragraph import Span
from odfdo.header import Header
from odfdo.element import Element

def span_style(s: str) -> bool:
    """
    pre: 1 <= len(s) <= 5
    post: _
    """
    e = Span("x", style=s)
    again = Element.from_tag(deepcopy(e._Element__element))
    return e.style == s and type(again) is Span and again.style == s

def span_style_nobool(s: str) -> bool:
    """
    pre: 1 <= len(s) <= 5 and s != "true" and s != "false"
    post: _
    """
    return span_style(s)

def header_style(s: str) -> bool:
    """
    pre: 1 <= len(s) <= 3
    post: _
    """
    e = Header(1, "x", style=s)
    return e.style == s
