def s2i(n: int) -> bool:
    """
    pre: 0 <= n <= 1000000
    post: _
    """
    s = str(n)
    return int(s) == n

def s2i_attr(n: int) -> bool:
    """
    pre: 2 <= n
    post: _
    """
    d = {}
    d["rep"] = str(n)
    v = d.get("rep")
    m = int(v)
    return m - 1 == n - 1 and m >= 2

def bug(n: int) -> bool:
    """
    pre: 0 <= n
    post: _
    """
    s = str(n)
    return int(s) != 123457
