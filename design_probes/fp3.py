import time, sys, z3
def build(nbits, K=3600, unit=10**6, W=64):
    # whole seconds: sec = K*n + g, us = unit*sec ; n < 2^nbits hours
    n = z3.BitVec('n', W); g = z3.BitVec('g', W)
    s = z3.Solver()
    s.add(z3.ULT(n, z3.BitVecVal(2**nbits, W)), z3.ULT(g, z3.BitVecVal(K, W)))
    us = (n * z3.BitVecVal(K, W) + g) * z3.BitVecVal(unit, W)
    f = z3.fpUnsignedToFP(z3.RNE(), us, z3.Float64())
    q = z3.fpDiv(z3.RNE(), f, z3.FPVal(float(K * unit), z3.Float64()))
    t = z3.fpRoundToIntegral(z3.RTZ(), q)
    s.add(z3.Not(z3.fpEQ(t, z3.fpUnsignedToFP(z3.RNE(), n, z3.Float64()))))
    return s
for nbits in (int(a) for a in sys.argv[1:]):
    s = build(nbits); s.set("timeout", 150000)
    t0 = time.time(); r = s.check(); print("z3 hours<2^%d" % nbits, r, round(time.time() - t0, 1), flush=True)
    open(f"/tmp/probe/fp3_{nbits}.smt2", "w").write("(set-logic QF_BVFP)\n" + s.to_smt2())
