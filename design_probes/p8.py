from p7 import Item, Vault
from odfdo.element_cached import set_item_in_vault, insert_item_in_vault, delete_item_in_vault, make_cache_map, find_odf_idx

def lookup(runs, q):
    """runs: list of (payload, rep). returns payload at q or -1 (out of range)"""
    acc = 0
    for payload, rep in runs:
        if q < acc + rep:
            return payload
        acc += rep
    return -1

def total(runs):
    return sum(rep for _, rep in runs)

def set_ok(r0: int, r1: int, r2: int, pos: int, rn: int, q: int) -> bool:
    """
    pre: 1 <= r0 and 1 <= r1 and 1 <= r2 and 1 <= rn
    pre: 0 <= pos < r0 + r1 + r2
    pre: 0 <= q
    post: _
    """
    v = Vault([Item(0, r0), Item(1, r1), Item(2, r2)])
    before = [(it.payload, it.rep) for it in v.items]
    set_item_in_vault(pos, Item(9, rn), v, None, "_m")
    after = [(it.payload, it.rep) for it in v.items]
    if pos <= q < pos + rn:
        exp = 9
    else:
        exp = lookup(before, q)
    got = lookup(after, q)
    xml_map = make_cache_map([(i, it.rep) for i, it in enumerate(v.items)])
    # read through the map, as the getters do
    idx = find_odf_idx(v._m, q)
    via_map = v.items[idx].payload if idx is not None and idx < len(v.items) else -1
    return got == exp and v._m == xml_map and all(it.rep >= 1 for it in v.items) and via_map == exp

def set_ok_nooverlap(r0: int, r1: int, r2: int, pos: int, rn: int, q: int) -> bool:
    """
    pre: 1 <= r0 and 1 <= r1 and 1 <= r2 and 1 <= rn
    pre: 0 <= pos < r0 + r1 + r2
    pre: 0 <= q
    pre: (pos < r0 and pos + rn <= r0) or (r0 <= pos < r0 + r1 and pos + rn <= r0 + r1) or (r0 + r1 <= pos and pos + rn <= r0 + r1 + r2)
    post: _
    """
    return set_ok(r0, r1, r2, pos, rn, q)
