import sys
sys.path.insert(0, "/verif/design_probes/fake")
from datetime import timedelta, date, datetime
from copy import deepcopy
from odfdo.cell import Cell
from odfdo.element import Element

def rt_int(v: int) -> bool:
    """
    pre: -1000000 <= v <= 1000000
    post: _
    """
    c = Cell(v)
    again = Element.from_tag(deepcopy(c._Element__element))
    return c.value == v and type(c.value) is int and again.get_value() == v and c.type == "float"

def rt_str(v: str) -> bool:
    """
    pre: len(v) <= 3
    post: _
    """
    c = Cell(v)
    return c.value == v and c.get_value() == v and c.type == "string"

def rt_bool(v: bool) -> bool:
    """
    post: _
    """
    c = Cell(v)
    return c.value is v and c.type == "boolean"

def rt_td(days: int, secs: int) -> bool:
    """
    pre: -400 <= days <= 400 and 0 <= secs < 86400
    post: _
    """
    v = timedelta(days=days, seconds=secs)
    c = Cell(v)
    return c.value == v and c.type == "time"

def rt_date(y: int, m: int, d: int) -> bool:
    """
    pre: 1 <= y <= 9999 and 1 <= m <= 12 and 1 <= d <= 28
    post: _
    """
    v = date(y, m, d)
    c = Cell(v)
    got = c.value
    return got == datetime(y, m, d) and c.type == "date"
