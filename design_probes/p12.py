import sys
sys.path.insert(0, "/verif/design_probes/fake")
from odfdo.row import Row
from odfdo.cell import Cell
import lxml.etree
assert "fake" in lxml.etree.__file__

def lookup(runs, q):
    acc = 0
    for payload, rep in runs:
        if q < acc + rep:
            return payload
        acc += rep
    return None

def row_set(r0: int, r1: int, x: int, rn: int, q: int) -> bool:
    """
    pre: 1 <= r0 <= 100 and 1 <= r1 <= 100 and 1 <= rn <= 100 and 0 <= x <= 300 and 0 <= q <= 500
    post: _
    """
    row = Row()
    row.append_cell(Cell(1, repeated=r0))
    row.append_cell(Cell(2, repeated=r1))
    before = [(1, r0), (2, r1)]
    row.set_cell(x, Cell(9, repeated=rn))
    if x <= q < x + rn:
        exp = 9
    else:
        exp = lookup(before, q)
    got = row.get_value(q)
    return got == exp
