from odfdo.utils.xpath_query import make_xpath_query

def lex_literal(q: str, start: int):
    """XPath 1.0 Literal at q[start:]: returns (value, end) or None"""
    if start >= len(q): return None
    quote = q[start]
    if quote != '"' and quote != "'": return None
    end = q.find(quote, start + 1)
    if end < 0: return None
    return q[start + 1:end], end + 1

def name_pred(name: str) -> bool:
    """
    pre: 1 <= len(name) <= 6
    post: _
    """
    q = make_xpath_query("descendant::table:table", table_name=name)
    prefix = 'descendant::table:table[@table:name='
    if not q.startswith(prefix): return False
    lit = lex_literal(q, len(prefix))
    if lit is None: return False
    value, end = lit
    return value == name and q[end:] == "]"

def name_pred_noquote(name: str) -> bool:
    """
    pre: 1 <= len(name) <= 6 and '"' not in name
    post: _
    """
    return name_pred(name)
