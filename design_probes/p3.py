from odfdo.utils.coordinates import alpha_to_digit, digit_to_alpha

def rt_digit_3(n: int) -> bool:
    """
    pre: 702 <= n <= 18277
    post: _
    """
    return alpha_to_digit(digit_to_alpha(n)) == n

def rt_digit_4(n: int) -> bool:
    """
    pre: 18278 <= n <= 475253
    post: _
    """
    return alpha_to_digit(digit_to_alpha(n)) == n
