import sys
sys.path.insert(0, "/verif/design_probes/fake")
from odfdo.table import Table, Column
from odfdo.row import Row
from odfdo.cell import Cell

def mk(r0, r1, c0, c1):
    t = Table("t")
    ra = Row(); ra.append_cell(Cell(1, repeated=c0)); ra.append_cell(Cell(2, repeated=c1)); ra.repeated = r0
    rb = Row(); rb.append_cell(Cell(3, repeated=c0)); rb.append_cell(Cell(4, repeated=c1)); rb.repeated = r1
    t.append_row(ra); t.append_row(rb)
    return t

def ref(r0, c0, c1, qx, qy):
    if qx >= c0 + c1: return None
    base = (1, 2) if qy < r0 else (3, 4)
    return base[0] if qx < c0 else base[1]

def stale_after_insert_column(r0: int, r1: int, c0: int, c1: int, x: int, pre_read: bool, qx: int, qy: int) -> bool:
    """
    pre: 1 <= r0 <= 3 and 1 <= r1 <= 3 and 1 <= c0 <= 3 and 1 <= c1 <= 3
    pre: 0 <= x <= c0 + c1 and 0 <= qy < r0 + r1 and 0 <= qx <= c0 + c1 + 1
    post: _
    """
    t = mk(r0, r1, c0, c1)
    if pre_read:
        t.get_row(qy, clone=False)
        t.get_value((0, qy))
    t.insert_column(x)
    if qx < x: exp = ref(r0, c0, c1, qx, qy)
    elif qx == x: exp = None
    else: exp = ref(r0, c0, c1, qx - 1, qy)
    return t.get_value((qx, qy)) == exp and t.width == c0 + c1 + 1

def set_cell_tab(r0: int, r1: int, c0: int, c1: int, x: int, y: int, qx: int, qy: int) -> bool:
    """
    pre: 1 <= r0 <= 4 and 1 <= r1 <= 4 and 1 <= c0 <= 4 and 1 <= c1 <= 4
    pre: 0 <= x <= c0 + c1 + 1 and 0 <= y <= r0 + r1 + 1 and 0 <= qy <= r0 + r1 + 2 and 0 <= qx <= c0 + c1 + 2
    post: _
    """
    t = mk(r0, r1, c0, c1)
    t.set_cell((x, y), Cell(9))
    if (qx, qy) == (x, y): exp = 9
    elif qy < r0 + r1: exp = ref(r0, c0, c1, qx, qy)
    else: exp = None
    return t.get_value((qx, qy)) == exp and t.height == max(r0 + r1, y + 1) and t.width == max(c0 + c1, x + 1)
