"""Probe-quality pure-Python stand-in for the subset of lxml.etree odfdo's table code uses."""
import re as _re
from xml.parsers import expat

class _Element:
    def __init__(self, tag, nsmap=None):
        self.tag = tag
        self.attrib = {}
        self.text = None
        self.tail = None
        self._children = []
        self._parent = None
        self.nsmap = nsmap or {}
    # children
    @property
    def prefix(self):
        ns = self.tag[1:].split("}")[0] if self.tag.startswith("{") else None
        return _PFX.get(ns)
    def __len__(self): return len(self._children)
    def __iter__(self): return iter(list(self._children))
    def __getitem__(self, i):
        return self._children[i]
    def __delitem__(self, i):
        if isinstance(i, slice):
            for c in self._children[i]: c._parent = None
            del self._children[i]
        else:
            self._children[i]._parent = None
            del self._children[i]
    def __bool__(self): return True
    def iterchildren(self): return iter(list(self._children))
    def getparent(self): return self._parent
    def _detach(self):
        p = self._parent
        if p is not None:
            p._children = [c for c in p._children if c is not self]
            self._parent = None
    def append(self, e):
        e._detach(); e._parent = self; self._children.append(e)
    def insert(self, pos, e):
        e._detach(); e._parent = self; self._children.insert(pos, e)
    def extend(self, es):
        for e in list(es): self.append(e)
    def remove(self, e):
        for i, c in enumerate(self._children):
            if c is e:
                del self._children[i]; e._parent = None; return
        raise ValueError("not a child")
    def index(self, e):
        for i, c in enumerate(self._children):
            if c is e: return i
        raise ValueError("not a child")
    def getnext(self):
        p = self._parent
        if p is None: return None
        i = p.index(self)
        return p._children[i+1] if i + 1 < len(p._children) else None
    def getprevious(self):
        p = self._parent
        if p is None: return None
        i = p.index(self)
        return p._children[i-1] if i > 0 else None
    def get(self, k, default=None): return self.attrib.get(k, default)
    def set(self, k, v): self.attrib[k] = v
    def clear(self):
        for c in self._children: c._parent = None
        self._children = []; self.attrib = {}; self.text = None; self.tail = None
    def __deepcopy__(self, memo):
        n = _Element(self.tag, self.nsmap)
        n.attrib = dict(self.attrib); n.text = self.text; n.tail = self.tail
        for c in self._children:
            cc = c.__deepcopy__(memo); cc._parent = n; n._children.append(cc)
        return n
    def xpath(self, expr, namespaces=None, **kw):
        return XPath(expr, namespaces=namespaces)(self, **kw)

class _ElementTree: pass

def Element(tag, nsmap=None): return _Element(tag, nsmap)

def fromstring(data):
    if isinstance(data, str): data = data.encode()
    p = expat.ParserCreate(namespace_separator="}")
    stack = []; root = [None]
    def start(name, attrs):
        tag = "{" + name if "}" in name else name
        e = _Element(tag)
        for k, v in attrs.items():
            e.attrib["{" + k if "}" in k else k] = v
        if stack: stack[-1].append(e)
        else: root[0] = e
        stack.append(e)
    def end(name): stack.pop()
    def chars(s):
        cur = stack[-1]
        if cur._children:
            last = cur._children[-1]; last.tail = (last.tail or "") + s
        else:
            cur.text = (cur.text or "") + s
    p.StartElementHandler = start; p.EndElementHandler = end; p.CharacterDataHandler = chars
    p.Parse(data, True)
    return root[0]

def tostring(e, **kw): raise NotImplementedError
def parse(*a, **k): raise NotImplementedError

class XPath:
    def __init__(self, path, namespaces=None, regexp=False):
        self.path = path; self.ns = namespaces or {}
    def _tag(self, q):
        if q == "*": return None
        pfx, name = q.split(":")
        return "{%s}%s" % (self.ns[pfx], name)
    def _rel(self, ctx, rel):
        nodes = [ctx]
        if rel.startswith("//"):
            root = ctx
            while root._parent is not None: root = root._parent
            rel = rel[2:]
            first, _, rest = rel.partition("/")
            t = self._tag(first)
            nodes = [n for n in [root] + list(self._desc(root)) if t is None or n.tag == t]
            if not rest:
                return nodes
            rel = rest
        for step in rel.split("/"):
            if step.startswith("@"):
                t = self._tag(step[1:])
                return [_smart(n.attrib[t], n, False) for n in nodes if t in n.attrib]
            desc = False
            if step.startswith("descendant::"):
                desc = True; step = step[len("descendant::"):]
            t = self._tag(step)
            new = []
            for n in nodes:
                cands = list(self._desc(n)) if desc else n._children
                new.extend(c for c in cands if t is None or c.tag == t)
            nodes = new
        return nodes
    def _desc(self, n):
        for c in n._children:
            yield c
            yield from self._desc(c)
    def _texts(self, n, out, include_self_text=True):
        if n.text is not None and len(n.text) > 0:
            out.append(_smart(n.text, n, True))
        for c in n._children:
            self._texts(c, out)
            if c.tail is not None and len(c.tail) > 0:
                out.append(_smart(c.tail, c, False))
    def __call__(self, ctx, **kw):
        if self.path == "*|text()":
            out = []
            if ctx.text is not None and len(ctx.text) > 0:
                out.append(_smart(ctx.text, ctx, True))
            for c in ctx._children:
                out.append(c)
                if c.tail is not None and len(c.tail) > 0:
                    out.append(_smart(c.tail, c, False))
            return out
        if self.path == "descendant::text()":
            out = []; self._texts(ctx, out); return out
        if self.path.startswith("(//office:body/*[1])") or self.path.startswith("//office:body"):
            root = ctx
            while root._parent is not None: root = root._parent
            for n in [root] + list(self._desc(root)):
                if n.tag.endswith("}body") and n._children:
                    return [n._children[0]]
            return []
        m = _re.fullmatch(r"\((.*)\)\[(\$idx|\d+)\]", self.path)
        idx = None; inner = self.path
        if m:
            inner = m.group(1); idx = kw["idx"] if m.group(2) == "$idx" else int(m.group(2))
        elif self.path.startswith("(") and self.path.endswith(")"):
            inner = self.path[1:-1]
        if not _re.fullmatch(r"[\w:\-\*/|@]+", inner):
            raise NotImplementedError(self.path)
        found = []
        for alt in inner.split("|"):
            found.extend(self._rel(ctx, alt))
        # document order: order by position in a DFS of ctx
        root = ctx
        while root._parent is not None: root = root._parent
        order = {id(n): i for i, n in enumerate([root] + list(self._desc(root)))}
        if found and not isinstance(found[0], _Element):
            return found
        uniq = {id(n): n for n in found}
        res = sorted(uniq.values(), key=lambda n: order[id(n)])
        if idx is not None:
            return res[idx-1:idx] if 1 <= idx <= len(res) else []
        return res


class _ConcreteSmart(str):
    def __new__(cls, s, parent, is_text):
        o = str.__new__(cls, s); o._p = parent; o.is_text = is_text; o.is_tail = not is_text
        return o
    def getparent(self): return self._p

def _smart(s, parent, is_text):
    if isinstance(s, str) and type(s) is str:
        return _ConcreteSmart(s, parent, is_text)
    o = _SymSmart(s._codepoints)
    o._p = parent; o.is_text = is_text; o.is_tail = not is_text
    o.getparent = lambda: parent
    return o

_PFX = {"urn:oasis:names:tc:opendocument:xmlns:text:1.0": "text", "urn:oasis:names:tc:opendocument:xmlns:drawing:1.0": "draw",
        "urn:oasis:names:tc:opendocument:xmlns:office:1.0": "office"}

try:
    from crosshair.libimpl.builtinslib import LazyIntSymbolicStr as _L
    class _SymSmart(_L):
        pass
except Exception:
    _SymSmart = None
