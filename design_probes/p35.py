"""K-seg probe for Element._insert(position=k): real element.py code on stub lxml-like nodes with segment strings."""
import odfdo.element as E
from odfdo.element import Element
from p21 import Seg

class LNode:
    """stand-in for an lxml _Element: text/tail are Seg or None"""
    def __init__(self, name, text=None, tail=None):
        self.name = name; self.text = text; self.tail = tail; self.kids = []; self.par = None
    def getparent(self): return self.par
    def insert(self, i, e): e.par = self; self.kids.insert(i, e)
    def append(self, e): e.par = self; self.kids.append(e)
    def addnext(self, e):
        p = self.par; i = [k is self for k in p.kids].index(True); e.par = p; p.kids.insert(i + 1, e)

class Smart:
    def __init__(self, seg, parent, is_text): self.seg = seg; self._p = parent; self.is_text = is_text; self.is_tail = not is_text
    def getparent(self): return self._p
    def __len__(self): return len(self.seg)
    def __getitem__(self, sl): return self.seg[sl]
    def __ch_pytype__(self): return str   # CrossHair's isinstance(x, str) then accepts the stand-in

def texts(n, out):
    if n.text is not None and len(n.text) > 0: out.append(Smart(n.text, n, True))
    for c in n.kids:
        texts(c, out)
        if c.tail is not None and len(c.tail) > 0: out.append(Smart(c.tail, c, False))
    return out

E._xpath_text_descendant = lambda cur: texts(cur, [])
E._xpath_text_main_descendant = lambda cur: texts(cur, [])

class W:
    """stand-in for an odfdo Element wrapper: only what _insert touches"""
    def __init__(self, node): self._Element__element = node
    @property
    def tail(self): return self._Element__element.tail
    @tail.setter
    def tail(self, v): self._Element__element.tail = v
    _insert_find_text = Element._insert_find_text
    _insert_before_after = Element._insert_before_after

def flat(n):
    pieces = list(n.text.pieces) if n.text is not None else []
    for c in n.kids:
        pieces += flat(c)
        if c.tail is not None: pieces += list(c.tail.pieces)
    return pieces

def mark_pos(n, acc=0):
    """position (count of chars before) of the node named 'mark', or None"""
    pos = acc + (len(n.text) if n.text is not None else 0)
    for c in n.kids:
        if c.name == "mark": return pos
        r = mark_pos(c, pos)
        if r is not None: return r
        pos = pos + len(Seg(flat(c))) + (len(c.tail) if c.tail is not None else 0)
    return None

# isinstance(text, str) checks in _insert_find_text: make Smart count as str for the real code
import builtins
def insert_pos(l0: int, l1: int, l2: int, pos: int, k: int) -> bool:
    """
    pre: 0 <= l0 and 1 <= l1 and 0 <= l2 and 0 <= pos <= l0 + l1 + l2 and 0 <= k < l0 + l1 + l2
    post: _
    """
    p = LNode("p", text=Seg([("A", 0, l0)]) if l0 > 0 else None)
    sp = LNode("span", text=Seg([("B", 0, l1)]), tail=Seg([("C", 0, l2)]) if l2 > 0 else None)
    p.append(sp)
    before = Seg(flat(p))
    mark = LNode("mark")
    Element._insert(W(p), W(mark), position=pos, main_text=True)
    after = Seg(flat(p))
    return len(after) == len(before) and after.at(k) == before.at(k) and mark_pos(p) == pos

def insert_pos_wrong(l0: int, l1: int, l2: int, pos: int, k: int) -> bool:
    """
    pre: 0 <= l0 and 1 <= l1 and 0 <= l2 and 0 <= pos <= l0 + l1 + l2 and 0 <= k < l0 + l1 + l2
    post: _
    """
    p = LNode("p", text=Seg([("A", 0, l0)]) if l0 > 0 else None)
    sp = LNode("span", text=Seg([("B", 0, l1)]), tail=Seg([("C", 0, l2)]) if l2 > 0 else None)
    p.append(sp)
    mark = LNode("mark")
    Element._insert(W(p), W(mark), position=pos, main_text=True)
    return mark_pos(p) == pos + 1
