import sys
sys.path.insert(0, "/verif/design_probes/fake")
import odfdo.element as E
import odfdo.paragraph as P
from odfdo.paragraph import Paragraph, Span
from odfdo.element import Element

def _mk_symetext():
    from crosshair.libimpl.builtinslib import LazyIntSymbolicStr
    class SymEText(LazyIntSymbolicStr):
        def __init__(self, text_result):
            LazyIntSymbolicStr.__init__(self, text_result._codepoints)
            self._parent = text_result.getparent()
            self._is_text = text_result.is_text
            self._is_tail = text_result.is_tail
        @property
        def parent(self):
            if self._parent is None: return None
            return Element.from_tag(tag_or_elem=self._parent)
        def is_text(self): return self._is_text
        def is_tail(self): return self._is_tail
    return SymEText

def proj(node):
    tag = node.tag.rpartition("}")[2]
    if tag == "tab": return "\t"
    if tag == "line-break": return "\n"
    if tag == "s":
        c = node.attrib.get("{urn:oasis:names:tc:opendocument:xmlns:text:1.0}c")
        return " " * (int(c) if c is not None else 1)
    out = node.text or ""
    for c in node._children:
        out += proj(c)
        out += c.tail or ""
    return out

def span_offset(t0: str, t1: str, t2: str, offset: int, length: int) -> bool:
    """
    pre: len(t0) <= 2 and len(t1) <= 2 and len(t2) <= 2 and 1 <= len(t1)
    pre: 0 <= offset <= 7 and 0 <= length <= 4
    pre: all(c in "ab " for c in t0 + t1 + t2)
    post: _
    """
    from crosshair.libimpl.builtinslib import LazyIntSymbolicStr
    if isinstance(t0, LazyIntSymbolicStr):
        E.EText = _mk_symetext()
    p = Paragraph()
    node = p._Element__element
    node.text = t0
    sp = Element.from_tag("text:span")
    sp._Element__element.text = t1
    sp._Element__element.tail = t2
    node.append(sp._Element__element)
    before = proj(node)
    nchild = len(node._children)
    p.set_span("st", offset=offset, length=length)
    after = proj(node)
    return after == before
