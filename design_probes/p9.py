import odfdo.paragraph as P
from odfdo.paragraph import Paragraph

class S:
    def __init__(self, n=1): self.n = n
class T:
    pass
class L:
    pass
P.Spacer = S
P.Tab = T
P.LineBreak = L

class D:
    _sub_merge_spaces = staticmethod(Paragraph._sub_merge_spaces)
    _sub_replace_tabs_lb = staticmethod(Paragraph._sub_replace_tabs_lb)

def pipeline(text):
    d = D()
    content = Paragraph._merge_spaces(d, [text])
    content = Paragraph._replace_tabs_lb(d, content)
    return content

def decode(tokens):
    out = ""
    for t in tokens:
        if isinstance(t, str): out += t
        elif isinstance(t, S): out += " " * t.n
        elif isinstance(t, T): out += "\t"
        else: out += "\n"
    return out

def normal_form(tokens, strict):
    last_space = True
    for t in tokens:
        if isinstance(t, str):
            for c in t:
                if c == " ":
                    if last_space:
                        return False
                    last_space = True
                elif c == "\t" or c == "\n" or c == "\r":
                    return False
                else:
                    last_space = False
        else:
            if isinstance(t, S) and t.n < 1:
                return False
            if not strict:
                last_space = False
    if tokens and isinstance(tokens[-1], str) and tokens[-1].endswith(" "):
        return False
    return True

def ws_ok(text: str) -> bool:
    """
    pre: len(text) <= 4
    pre: all(c in "a \t\n" for c in text)
    post: _
    """
    toks = pipeline(text)
    return decode(toks) == text and normal_form(toks, False)

def ws_ok_strict(text: str) -> bool:
    """
    pre: len(text) <= 4
    pre: all(c in "a \t\n" for c in text)
    post: _
    """
    toks = pipeline(text)
    return decode(toks) == text and normal_form(toks, True)
