from odfdo.utils.coordinates import alpha_to_digit, digit_to_alpha

def d2a_len(n: int) -> str:
    """
    pre: 0 <= n <= 701
    post: 1 <= len(_) <= 2
    """
    return digit_to_alpha(n)

def rt_digit_small(n: int) -> bool:
    """
    pre: 0 <= n <= 701
    post: _
    """
    return alpha_to_digit(digit_to_alpha(n)) == n

def a2d(s: str) -> int:
    """
    pre: len(s) == 2
    pre: all(c in 'ABCDEFGHIJKLMNOPQRSTUVWXYZ' for c in s)
    post: 26 <= _ <= 701
    """
    return alpha_to_digit(s)
