import time, sys
import z3
def build(whole_seconds=True, K=3600*10**6, BITS=64, LIM=2**53):
    us = z3.BitVec('us', BITS)
    s = z3.Solver()
    s.add(z3.ULT(us, z3.BitVecVal(LIM, BITS)))
    if whole_seconds:
        sec = z3.BitVec('sec', BITS)
        s.add(z3.ULT(sec, z3.BitVecVal(LIM // 10**6 + 1, BITS)))
        s.add(us == sec * z3.BitVecVal(10**6, BITS))
    f = z3.fpUnsignedToFP(z3.RNE(), us, z3.Float64())
    q = z3.fpDiv(z3.RNE(), f, z3.FPVal(float(K), z3.Float64()))
    t = z3.fpRoundToIntegral(z3.RTZ(), q)
    exact = z3.fpUnsignedToFP(z3.RNE(), z3.UDiv(us, z3.BitVecVal(K, BITS)), z3.Float64())
    s.add(z3.Not(z3.fpEQ(t, exact)))
    return s
for ws in (True, False):
    s = build(ws)
    s.set("timeout", 240000)
    t0 = time.time(); r = s.check(); dt = time.time() - t0
    print("whole_seconds" if ws else "microseconds", r, round(dt, 1), s.model() if str(r) == "sat" else "")
    open(f"/tmp/probe/fp_{'ws' if ws else 'us'}.smt2", "w").write("(set-logic QF_BVFP)\n" + s.to_smt2())
