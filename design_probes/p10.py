from datetime import timedelta
import odfdo.datatype as DT
from odfdo.datatype import Duration

class Cap:
    def __mod__(self, tup):
        raise Captured(tup)
class Captured(Exception):
    def __init__(self, tup): self.tup = tup

def enc_arith(days: int, secs: int) -> bool:
    """
    pre: -100000 <= days <= 100000 and 0 <= secs < 86400
    post: _
    """
    td = timedelta(days=days, seconds=secs)
    old = DT.DURATION_FORMAT
    DT.DURATION_FORMAT = Cap()
    try:
        Duration.encode(td)
    except Captured as c:
        h, m, s = c.tup
    finally:
        DT.DURATION_FORMAT = old
    total = days * 86400 + secs
    a = abs(total)
    return int(h) * 3600 + int(m) * 60 + int(s) == a and 0 <= int(m) < 60 and 0 <= int(s) < 60 and int(h) >= 0

def rt(h: int, m: int, s: int, neg: bool) -> bool:
    """
    pre: 0 <= h <= 99999 and 0 <= m < 60 and 0 <= s < 60
    post: _
    """
    text = ("-" if neg else "") + DT.DURATION_FORMAT % (h, m, s)
    sign = -1 if neg else 1
    return Duration.decode(text) == timedelta(hours=sign*h, minutes=sign*m, seconds=sign*s)
