from p7 import Item, Vault
from p8 import lookup
from odfdo.element_cached import set_item_in_vault, insert_item_in_vault, delete_item_in_vault, make_cache_map, find_odf_idx

def mk(r0, r1, r2):
    return Vault([Item(0, r0), Item(1, r1), Item(2, r2)])

def inv(v, exp, q):
    after = [(it.payload, it.rep) for it in v.items]
    xml_map = make_cache_map([(i, it.rep) for i, it in enumerate(v.items)])
    idx = find_odf_idx(v._m, q)
    via_map = v.items[idx].payload if idx is not None and idx < len(v.items) else -1
    return lookup(after, q) == exp and v._m == xml_map and all(it.rep >= 1 for it in v.items) and via_map == exp

def insert_ok(r0: int, r1: int, r2: int, pos: int, rn: int, q: int) -> bool:
    """
    pre: 1 <= r0 and 1 <= r1 and 1 <= r2 and 1 <= rn
    pre: 0 <= pos < r0 + r1 + r2
    pre: 0 <= q
    post: _
    """
    v = mk(r0, r1, r2)
    before = [(it.payload, it.rep) for it in v.items]
    insert_item_in_vault(pos, Item(9, rn), v, None, "_m")
    if pos <= q < pos + rn: exp = 9
    elif q < pos: exp = lookup(before, q)
    else: exp = lookup(before, q - rn)
    return inv(v, exp, q)

def delete_ok(r0: int, r1: int, r2: int, pos: int, q: int) -> bool:
    """
    pre: 1 <= r0 and 1 <= r1 and 1 <= r2
    pre: 0 <= pos < r0 + r1 + r2
    pre: 0 <= q
    post: _
    """
    v = mk(r0, r1, r2)
    before = [(it.payload, it.rep) for it in v.items]
    delete_item_in_vault(pos, v, None, "_m")
    exp = lookup(before, q) if q < pos else lookup(before, q + 1)
    return inv(v, exp, q)

def twin(r0: int, r1: int, r2: int, pos: int, q: int) -> bool:
    """
    pre: 1 <= r0 and 1 <= r1 and 1 <= r2
    pre: 0 <= pos < r0 + r1 + r2
    pre: 0 <= q
    post: False
    """
    v = mk(r0, r1, r2)
    delete_item_in_vault(pos, v, None, "_m")
    return True
