import sys
sys.path.insert(0, "/verif/design_probes/fake")
from odfdo.table import Table
from odfdo.row import Row
from odfdo.cell import Cell

def tab_append_cell(r0: int, r1: int, y: int, qx: int, qy: int) -> bool:
    """
    pre: 1 <= r0 <= 50 and 1 <= r1 <= 50 and 0 <= y < r0 + r1 and 0 <= qx <= 3 and 0 <= qy < r0 + r1
    post: _
    """
    t = Table("t")
    ra = Row(); ra.append_cell(Cell(1)); ra.append_cell(Cell(2)); ra.repeated = r0
    rb = Row(); rb.append_cell(Cell(3)); rb.append_cell(Cell(4)); rb.repeated = r1
    t.append_row(ra); t.append_row(rb)
    t.append_cell(y, Cell(9))
    base = [1, 2] if qy < r0 else [3, 4]
    if qy == y:
        base = base + [9]
    exp = base[qx] if qx < len(base) else None
    return t.get_value((qx, qy)) == exp and t.height == r0 + r1
