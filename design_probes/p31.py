import sys
sys.path.insert(0, "/verif/design_probes/fake")
from odfdo.table import Table
from odfdo.row import Row
from odfdo.cell import Cell
from p22 import mk, ref

def tall_small(r0: int, r1: int, x: int, y: int, qx: int, qy: int) -> bool:
    """
    pre: 1 <= r0 <= 2 and 1 <= r1 <= 2
    pre: 0 <= x <= 3 and 0 <= y <= r0 + r1 + 1 and 0 <= qy <= r0 + r1 + 1 and 0 <= qx <= 3
    post: _
    """
    t = mk(r0, r1, 1, 1)
    t.set_cell((x, y), Cell(9))
    if (qx, qy) == (x, y): exp = 9
    elif qy < r0 + r1: exp = ref(r0, 1, 1, qx, qy)
    else: exp = None
    return t.get_value((qx, qy)) == exp and t.height == max(r0 + r1, y + 1) and t.width == max(2, x + 1)

def tall_samerow(r0: int, r1: int, x: int, y: int, qx: int) -> bool:
    """
    pre: 1 <= r0 <= 4 and 1 <= r1 <= 4
    pre: 0 <= x <= 3 and 0 <= y < r0 + r1 and 0 <= qx <= 3
    post: _
    """
    t = mk(r0, r1, 1, 1)
    t.set_cell((x, y), Cell(9))
    exp = 9 if qx == x else ref(r0, 1, 1, qx, y)
    return t.get_value((qx, y)) == exp
