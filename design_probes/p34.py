import sys, re
sys.path.insert(0, "/verif/design_probes/fake")
import odfdo.element as E
import odfdo.paragraph as P
from odfdo.paragraph import Paragraph
from odfdo.element import Element
from crosshair.libimpl.builtinslib import LazyIntSymbolicStr

class SymEText(LazyIntSymbolicStr):
    def __init__(self, text_result):
        cps = text_result._codepoints if isinstance(text_result, LazyIntSymbolicStr) else list(map(ord, text_result))
        LazyIntSymbolicStr.__init__(self, cps)
        self._parent = text_result.getparent(); self._is_text = text_result.is_text; self._is_tail = text_result.is_tail
    @property
    def parent(self):
        return None if self._parent is None else Element.from_tag(tag_or_elem=self._parent)
    def is_text(self): return self._is_text
    def is_tail(self): return self._is_tail
class _Meta(type):
    def __call__(cls, text_result):
        return SymEText(text_result)
class ETextShim(str, metaclass=_Meta):
    """name bound to `EText` in odfdo modules: calling it builds a SymEText, isinstance() sees a str subclass"""
SymEText.__ch_pytype__ = lambda self: ETextShim
E.EText = ETextShim
P.EText = ETextShim

TXT = "{urn:oasis:names:tc:opendocument:xmlns:text:1.0}"

def decode_and_check(node):
    """consumer-style ODF collapsing over the tree: returns (text, ok_normal_form)"""
    out = ""; last_space = True; ok = True; last_was_text_space = False
    def chars(s):
        nonlocal out, last_space, ok, last_was_text_space
        for c in s or "":
            if c == " ":
                if last_space: ok = False
                out += " "; last_space = True; last_was_text_space = True
            elif c in "\t\n\r":
                ok = False; out += c; last_space = True; last_was_text_space = False
            else:
                out += c; last_space = False; last_was_text_space = False
    chars(node.text)
    for c in node._children:
        tag = c.tag
        if tag == TXT + "s":
            n = c.attrib.get(TXT + "c"); out += " " * (int(n) if n is not None else 1)
        elif tag == TXT + "tab": out += "\t"
        elif tag == TXT + "line-break": out += "\n"
        else: ok = False
        last_space = False; last_was_text_space = False
        chars(c.tail)
    if last_was_text_space: ok = False   # trailing plain space would be stripped
    return out, ok

def two_appends(s1: str, s2: str) -> bool:
    """
    pre: len(s1) <= 2 and len(s2) <= 2
    pre: all(c in "a \t\n" for c in s1 + s2)
    post: _
    """
    re.purge()
    p = Paragraph(s1)
    p.append_plain_text(s2)
    text, ok = decode_and_check(p._Element__element)
    return text == s1 + s2 and ok and p.inner_text == s1 + s2
