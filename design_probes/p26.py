import sys
sys.path.insert(0, "/verif/design_probes/fake")
from typing import List
import lxml.etree as ET
from odfdo.element import Element
from odfdo.header import Header
from odfdo.toc import TOC
from odfdo.paragraph import Paragraph

OFF = "urn:oasis:names:tc:opendocument:xmlns:office:1.0"
TXT = "urn:oasis:names:tc:opendocument:xmlns:text:1.0"

def ref_numbers(levels):
    counters = {}; out = []
    for lv in levels:
        for k in list(counters):
            if k > lv: del counters[k]
        counters[lv] = counters.get(lv, 0) + 1
        out.append(".".join(str(counters.get(i, 1)) for i in range(1, lv + 1)) + ".")
    return out

def flat_text(node):
    tag = node.tag.rpartition("}")[2]
    if tag == "line-break": return "\n"
    if tag == "tab": return "\t"
    if tag == "s": return " "
    out = node.text or ""
    for c in node._children:
        out += flat_text(c) + (c.tail or "")
    return out

def fill_ok(l0: int, l1: int, l2: int, outline: int) -> bool:
    """
    pre: l0 == 1 and 1 <= l1 <= l0 + 1 and 1 <= l2 <= l1 + 1 and 1 <= outline <= 3
    post: _
    """
    doc = ET.Element("{%s}document-content" % OFF)
    body = ET.Element("{%s}body" % OFF); doc.append(body)
    text = ET.Element("{%s}text" % OFF); body.append(text)
    tbody = Element.from_tag(text)
    toc = TOC(outline_level=outline)
    tbody.append(toc)
    levels = [l0, l1, l2]
    titles = ["A", "B", "C"]
    for lv, ti in zip(levels, titles):
        tbody.append(Header(lv, ti))
    toc.fill(use_default_styles=False)
    kept = [(lv, ti) for lv, ti in zip(levels, titles) if lv <= outline]
    nums = ref_numbers([lv for lv, _ in kept])
    entries = [e for e in toc.body._Element__element._children if e.tag.endswith("}p")]
    got = [flat_text(e) for e in entries]
    exp = [n + " " + ti + "\n" for n, (_, ti) in zip(nums, kept)]
    return got == exp
