def rt_a(n: int) -> bool:
    """
    pre: 0 <= n <= 1000000
    post: _
    """
    s = str(n)
    return int(s) == n

def rt_b(n: int) -> bool:
    """
    pre: 2 <= n <= 9
    post: _
    """
    d = {}
    d["rep"] = str(n)
    v = d.get("rep")
    m = int(v)
    return m - 1 == n - 1 and m >= 2
