from ktable2 import *

def mktab(r0, r1, c0, c1):
    t = KTable()
    ra = KRow(); ra.append_cell(IntCell(1, c0)); ra.append_cell(IntCell(2, c1)); ra.repeated = r0
    rb = KRow(); rb.append_cell(IntCell(3, c0)); rb.append_cell(IntCell(4, c1)); rb.repeated = r1
    t.append_row(ra); t.append_row(rb)
    return t

def ref(r0, c0, c1, qx, qy):
    if qx >= c0 + c1: return None
    base = (1, 2) if qy < r0 else (3, 4)
    return base[0] if qx < c0 else base[1]

def stale(r0: int, r1: int, c0: int, c1: int, x: int, pre_read: bool, qx: int, qy: int) -> bool:
    """
    pre: 1 <= r0 and 1 <= r1 and 1 <= c0 and 1 <= c1
    pre: 0 <= x <= c0 + c1 and 0 <= qy < r0 + r1 and 0 <= qx <= c0 + c1 + 1
    post: _
    """
    t = mktab(r0, r1, c0, c1)
    if pre_read:
        t.get_row(qy, clone=False)
        t.get_value((0, qy))
    t.insert_column(x)
    if qx < x: exp = ref(r0, c0, c1, qx, qy)
    elif qx == x: exp = None
    else: exp = ref(r0, c0, c1, qx - 1, qy)
    return t.get_value((qx, qy)) == exp and t.width == c0 + c1 + 1

def stale_noread(r0: int, r1: int, c0: int, c1: int, x: int, qx: int, qy: int) -> bool:
    """
    pre: 1 <= r0 and 1 <= r1 and 1 <= c0 and 1 <= c1
    pre: 0 <= x <= c0 + c1 and 0 <= qy < r0 + r1 and 0 <= qx <= c0 + c1 + 1
    post: _
    """
    return stale(r0, r1, c0, c1, x, False, qx, qy)
