import sys
sys.path.insert(0, "/verif/design_probes/fake")
from odfdo.row import Row
from odfdo.cell import Cell
from p12 import lookup

def row_set_ok_s(r0: int, r1: int, x: int, rn: int, q: int) -> bool:
    """
    pre: 1 <= r0 <= 6 and 1 <= r1 <= 6 and 1 <= rn <= 6 and 0 <= x <= 14 and 0 <= q <= 20
    pre: (x + rn <= r0) or (r0 <= x and x + rn <= r0 + r1) or (x >= r0 + r1)
    post: _
    """
    row = Row()
    row.append_cell(Cell(1, repeated=r0))
    row.append_cell(Cell(2, repeated=r1))
    before = [(1, r0), (2, r1)]
    row.set_cell(x, Cell(9, repeated=rn))
    if x <= q < x + rn:
        exp = 9
    else:
        exp = lookup(before, q)
    got = row.get_value(q)
    return got == exp

def row_insert_ok_s(r0: int, r1: int, x: int, rn: int, q: int) -> bool:
    """
    pre: 1 <= r0 <= 6 and 1 <= r1 <= 6 and 1 <= rn <= 6 and 0 <= x <= 14 and 0 <= q <= 20
    post: _
    """
    row = Row()
    row.append_cell(Cell(1, repeated=r0))
    row.append_cell(Cell(2, repeated=r1))
    before = [(1, r0), (2, r1)]
    row.insert_cell(x, Cell(9, repeated=rn))
    if x <= q < x + rn:
        exp = 9
    elif q < x:
        exp = lookup(before, q)
    else:
        exp = lookup(before, q - rn)
    got = row.get_value(q)
    return got == exp
