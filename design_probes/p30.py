import sys
sys.path.insert(0, "/verif/design_probes/fake")
from odfdo.table import Table
from odfdo.row import Row
from odfdo.cell import Cell
from p22 import mk, ref

def tall_set_cell(r0: int, r1: int, x: int, y: int, qx: int, qy: int) -> bool:
    """
    pre: 1 <= r0 <= 4 and 1 <= r1 <= 4
    pre: 0 <= x <= 3 and 0 <= y <= r0 + r1 + 1 and 0 <= qy <= r0 + r1 + 2 and 0 <= qx <= 4
    post: _
    """
    t = mk(r0, r1, 1, 1)
    t.set_cell((x, y), Cell(9))
    if (qx, qy) == (x, y): exp = 9
    elif qy < r0 + r1: exp = ref(r0, 1, 1, qx, qy)
    else: exp = None
    return t.get_value((qx, qy)) == exp and t.height == max(r0 + r1, y + 1) and t.width == max(2, x + 1)

def wide_set_cell(c0: int, c1: int, x: int, y: int, qx: int, qy: int) -> bool:
    """
    pre: 1 <= c0 <= 4 and 1 <= c1 <= 4
    pre: 0 <= y <= 3 and 0 <= x <= c0 + c1 + 1 and 0 <= qx <= c0 + c1 + 2 and 0 <= qy <= 4
    post: _
    """
    t = mk(1, 1, c0, c1)
    t.set_cell((x, y), Cell(9))
    if (qx, qy) == (x, y): exp = 9
    elif qy < 2: exp = ref(1, c0, c1, qx, qy)
    else: exp = None
    return t.get_value((qx, qy)) == exp and t.height == max(2, y + 1) and t.width == max(c0 + c1, x + 1)
