import time, sys, z3
lo, hi = int(sys.argv[1]), int(sys.argv[2])
K=3600; unit=10**6; W=64
n = z3.BitVec('n', W); g = z3.BitVec('g', W)
s = z3.Solver()
s.add(z3.UGE(n, z3.BitVecVal(lo, W)), z3.ULT(n, z3.BitVecVal(hi, W)), z3.ULT(g, z3.BitVecVal(K, W)))
us = (n * z3.BitVecVal(K, W) + g) * z3.BitVecVal(unit, W)
f = z3.fpUnsignedToFP(z3.RNE(), us, z3.Float64())
q = z3.fpDiv(z3.RNE(), f, z3.FPVal(float(K * unit), z3.Float64()))
t = z3.fpRoundToIntegral(z3.RTZ(), q)
s.add(z3.Not(z3.fpEQ(t, z3.fpUnsignedToFP(z3.RNE(), n, z3.Float64()))))
open("/tmp/probe/fp4.smt2", "w").write("(set-logic QF_BVFP)\n" + s.to_smt2().replace("bvudiv_i","bvudiv").replace("bvurem_i","bvurem"))
