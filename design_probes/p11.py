from datetime import timedelta
import odfdo.datatype as DT
from odfdo.datatype import Duration

def rt(h: int, m: int, s: int, neg: bool) -> bool:
    """
    pre: 0 <= h <= 999 and 0 <= m < 60 and 0 <= s < 60
    post: _
    """
    text = ("-" if neg else "") + "PT" + str(h).rjust(2, "0") + "H" + str(m).rjust(2, "0") + "M" + str(s).rjust(2, "0") + "S"
    sign = -1 if neg else 1
    got = Duration.decode(text)
    return got.days * 86400 + got.seconds == sign * (h * 3600 + m * 60 + s) and got.microseconds == 0

def dec_digits(H: str, M: str, S: str) -> bool:
    """
    pre: 1 <= len(H) <= 4 and len(M) == 2 and len(S) == 2
    pre: H.isdigit() and M.isdigit() and S.isdigit()
    post: _
    """
    got = Duration.decode("PT" + H + "H" + M + "M" + S + "S")
    return got.days * 86400 + got.seconds == int(H) * 3600 + int(M) * 60 + int(S)
