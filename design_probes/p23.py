import sys
sys.path.insert(0, "/verif/design_probes/fake")
from typing import Optional
from copy import deepcopy
from odfdo.container import pretty_indent
from odfdo.element import Element
import lxml.etree as ET

T = "urn:oasis:names:tc:opendocument:xmlns:text:1.0"
D = "urn:oasis:names:tc:opendocument:xmlns:drawing:1.0"

def collapse_proj(node, st):
    """consumer-style ODF collapsing; st = [last_was_space]"""
    tag = node.tag.rpartition("}")[2]
    if tag == "tab": st[0] = False; return "\t"
    if tag == "line-break": st[0] = False; return "\n"
    if tag == "s": st[0] = False; return " "
    out = ""
    if tag in ("frame", "note", "text-box"):
        return out  # character data not permitted here / separate paragraphs: not part of this paragraph's text
    def chars(s):
        nonlocal out
        for c in s or "":
            if c in " \t\n\r":
                if not st[0]:
                    out += " "; st[0] = True
            else:
                out += c; st[0] = False
    chars(node.text)
    for c in node._children:
        out += collapse_proj(c, st)
        chars(c.tail)
    return out

def para_text(p):
    return collapse_proj(p, [True]).rstrip(" ")

def mk(kind1: int, t_p: Optional[str], t1: Optional[str], tail1: Optional[str], inner: bool):
    body = ET.Element("{urn:oasis:names:tc:opendocument:xmlns:office:1.0}text")
    p = ET.Element("{%s}p" % T); body.append(p)
    p.text = t_p
    tags = ["{%s}span" % T, "{%s}frame" % D, "{%s}note" % T, "{%s}a" % T]
    e1 = ET.Element(tags[kind1]); p.append(e1)
    e1.text = t1; e1.tail = tail1
    if inner:
        e1.append(ET.Element("{%s}text-box" % D) if kind1 == 1 else ET.Element("{%s}span" % T))
    return body, p

def pretty_keeps_text(kind1: int, t_p: Optional[str], t1: Optional[str], tail1: Optional[str], inner: bool) -> bool:
    """
    pre: 0 <= kind1 <= 3
    pre: (t_p is None or (len(t_p) <= 1 and all(c in "a " for c in t_p)))
    pre: (t1 is None or (len(t1) <= 1 and all(c in "a " for c in t1)))
    pre: (tail1 is None or (len(tail1) <= 1 and all(c in "a " for c in tail1)))
    post: _
    """
    body, p = mk(kind1, t_p, t1, tail1, inner)
    before = para_text(p)
    pretty_indent(body)
    return para_text(p) == before

def pretty_keeps_text2(kind1: int, kind2: int, t1: Optional[str], tail1: Optional[str], t2: Optional[str]) -> bool:
    """
    pre: 0 <= kind1 <= 3 and 0 <= kind2 <= 3
    pre: (t1 is None or (len(t1) <= 1 and all(c in "a " for c in t1)))
    pre: (tail1 is None or (len(tail1) <= 1 and all(c in "a " for c in tail1)))
    pre: (t2 is None or (len(t2) <= 1 and all(c in "a " for c in t2)))
    post: _
    """
    body, p = mk(kind1, None, t1, tail1, False)
    tags = ["{%s}span" % T, "{%s}frame" % D, "{%s}note" % T, "{%s}a" % T]
    e2 = ET.Element(tags[kind2]); p.append(e2); e2.text = t2
    before = para_text(p)
    pretty_indent(body)
    return para_text(p) == before

def pretty_keeps_text3(kind1: int, kind2: int, t_p: Optional[str], tail1: Optional[str], t2: Optional[str]) -> bool:
    """
    pre: 0 <= kind1 <= 3 and 0 <= kind2 <= 3
    pre: (t_p is None or (len(t_p) <= 1 and all(c in "a " for c in t_p)))
    pre: (tail1 is None or (len(tail1) <= 1 and all(c in "a " for c in tail1)))
    pre: (t2 is None or (len(t2) <= 1 and all(c in "a " for c in t2)))
    post: _
    """
    body, p = mk(kind1, t_p, None, tail1, False)
    tags = ["{%s}span" % T, "{%s}frame" % D, "{%s}note" % T, "{%s}a" % T]
    e2 = ET.Element(tags[kind2]); p.append(e2); e2.text = t2
    before = para_text(p)
    pretty_indent(body)
    return para_text(p) == before
