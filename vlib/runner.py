"""Obligation runner: one `crosshair check` (or SMT script) process per obligation.

Verdict per obligation (DESIGN.md section 1):
  HOLDS          CrossHair "Confirmed over all paths" / both solvers unsat
  COUNTEREXAMPLE concrete inputs from the solver model -> replayed on the
                 unmodified library with real lxml before anything is reported
  INCONCLUSIVE   anything else (timeout, Not confirmed, Unable to meet
                 precondition, solver unknown, tool error)
Exit codes of a check: 0 held (KNOWN-FINDING / INCONCLUSIVE lines allowed),
1 VIOLATION (replayed), 3 harness error (counterexample that does not replay,
vacuous harness).  With VERIF_STRICT=1 an inconclusive obligation gives exit 2.
"""
from __future__ import annotations

import ast
import importlib
import json
import os
import re
import shutil
import subprocess
import sys
import tempfile
import time
from concurrent.futures import ThreadPoolExecutor
from dataclasses import dataclass, field, asdict
from pathlib import Path

ROOT = Path(__file__).resolve().parent.parent
REPO = Path(os.environ.get("VERIF_REPO", "/repo"))
SRC = REPO / "src"
VENV = ROOT / ".venv"
PY = VENV / "bin" / "python"
CROSSHAIR = VENV / "bin" / "crosshair"
HARNESS = ROOT / "harness"
SHADOW = ROOT / "shadow"
REPLAY_DIR = ROOT / "replay"
KNOWN = ROOT / "known_findings.json"
OUT = Path(os.environ.get("VERIF_OUT", str(ROOT)))  # where evidence/ and replays/ are written
WORKERS = int(os.environ.get("VERIF_WORKERS", "16"))
SCALE = float(os.environ.get("VERIF_TIMEOUT_SCALE", "1.0"))


@dataclass
class Obl:
    name: str
    module: str
    func: str
    timeout: int = 60
    tier: str = "quick"  # "quick": run in both tiers; "thorough": thorough only
    expect: str = "holds"  # "holds" | "finding"
    finding: str | None = None
    shadow: bool = False
    replay: str | None = None  # "module:function" under /verif/replay
    bounds: str = ""
    encodes: list = field(default_factory=list)
    stubs: list = field(default_factory=list)
    engine: str = "crosshair"  # "crosshair" | "script"
    script_args: list = field(default_factory=list)
    twin: bool = True
    weight: int = 0  # scheduling hint (larger first); defaults to timeout
    env: dict = field(default_factory=dict)  # extra environment of the harness process (concrete selectors)
    extra: dict = field(default_factory=dict)  # merged into the replay kwargs


@dataclass
class Result:
    obl: Obl
    verdict: str = "inconclusive"  # holds | counterexample | inconclusive
    detail: str = ""
    kwargs: dict | None = None
    seconds: float = 0.0
    paths: int = 0
    nontrivial_paths: int = 0
    twin_reached: bool | None = None
    replayed: bool | None = None
    replay_detail: str = ""
    replay_file: str = ""
    queries: int = 0
    attempts: int = 1


def base_env(shadow: bool) -> dict:
    env = dict(os.environ)
    pp = []
    if shadow:
        pp.append(str(SHADOW))
    pp += [str(SRC), str(ROOT), str(HARNESS), str(REPLAY_DIR)]
    env["PYTHONPATH"] = os.pathsep.join(pp)
    env["PYTHONDONTWRITEBYTECODE"] = "1"
    env["PYTHONHASHSEED"] = "0"
    env.pop("PYTHONSTARTUP", None)
    return env


def ensure_venv():
    if not CROSSHAIR.exists():
        subprocess.run([str(ROOT / "bin" / "setup")], check=True)


# ---------------------------------------------------------------- parsing

_MSG = re.compile(r"^(?P<file>.*?):(?P<line>\d+): (?P<kind>error|info|warning): (?P<msg>.*)$")


def harness_funcdef(module: str, func: str) -> ast.FunctionDef:
    src = (HARNESS / f"{module}.py").read_text()
    tree = ast.parse(src)
    for node in tree.body:
        if isinstance(node, ast.FunctionDef) and node.name == func:
            return node
    raise KeyError(f"{module}.{func} not found")


def param_names(module: str, func: str) -> list:
    fd = harness_funcdef(module, func)
    return [a.arg for a in fd.args.args]


def parse_call(msg: str, func: str, names: list) -> dict | None:
    """Extract the arguments of `func(...)` from a CrossHair message."""
    key = f"when calling {func}("
    i = msg.find(key)
    if i < 0:
        return None
    expr = msg[i + len("when calling "):]
    # strip trailing " (which returns ...)" by trying successively shorter prefixes
    candidates = [expr]
    j = expr.rfind(" (which returns")
    if j >= 0:
        candidates.insert(0, expr[:j])
    for cand in candidates:
        try:
            node = ast.parse(cand.strip(), mode="eval").body
        except SyntaxError:
            continue
        if not isinstance(node, ast.Call):
            continue
        try:
            out = {}
            for name, a in zip(names, node.args):
                out[name] = _lit(a)
            for kw in node.keywords:
                out[kw.arg] = _lit(kw.value)
            return out
        except Exception:
            return None
    return None


def _lit(node):
    try:
        return ast.literal_eval(node)
    except Exception:
        return eval(compile(ast.Expression(node), "<cx>", "eval"), {"__builtins__": {}}, {"float": float, "nan": float("nan"), "inf": float("inf")})


# ---------------------------------------------------------------- twins

def write_twin(tmp: Path, o: Obl) -> Path:
    fd = harness_funcdef(o.module, o.func)
    doc = ast.get_docstring(fd) or ""
    pres = [ln.strip() for ln in doc.splitlines() if ln.strip().startswith("pre:")]
    raises = [ln.strip() for ln in doc.splitlines() if ln.strip().startswith("raises:")]
    sig = ast.unparse(fd.args)
    call = ", ".join(a.arg for a in fd.args.args)
    body = "\n    ".join(pres + raises + ["post: False"])
    text = (
        f"from {o.module} import *\nimport {o.module} as _m\n\n"
        f"def twin({sig}):\n    '''\n    {body}\n    '''\n    _m.{o.func}({call})\n    return True\n"
    )
    # docstrings are read raw by CrossHair: keep backslashes as in the source
    p = tmp / f"twin_{o.module}_{o.func}.py"
    p.write_text(text)
    return p


# ---------------------------------------------------------------- running

def run_crosshair(target: str, timeout: float, shadow: bool, stats: Path | None, cwd: Path, extra_env=None):
    env = base_env(shadow)
    if stats is not None:
        env["VERIF_STATS"] = str(stats)
    if extra_env:
        env.update(extra_env)
    cmd = [
        str(CROSSHAIR), "check", "--report_all", "--unblock", "EVERYTHING",
        "--analysis_kind", "PEP316",
        "--per_condition_timeout", str(timeout), "--per_path_timeout", str(timeout),
        target,
    ]
    t0 = time.time()
    try:
        cp = subprocess.run(cmd, env=env, cwd=str(cwd), capture_output=True, text=True,
                            timeout=timeout * 2 + 60)
        out, err, rc = cp.stdout, cp.stderr, cp.returncode
    except subprocess.TimeoutExpired as e:
        out = (e.stdout or b"").decode() if isinstance(e.stdout, bytes) else (e.stdout or "")
        err = "wall timeout"
        rc = -9
    return out, err, rc, time.time() - t0


def classify(out: str, err: str, rc: int, func: str, names: list):
    """-> (verdict, detail, kwargs)"""
    msgs = []
    for ln in out.splitlines():
        m = _MSG.match(ln)
        if m:
            msgs.append((m.group("kind"), m.group("msg")))
    errors = [m for k, m in msgs if k == "error"]
    infos = [m for k, m in msgs if k == "info"]
    if errors:
        kw = parse_call(errors[0], func, names)
        return "counterexample", errors[0], kw
    if any("Confirmed over all paths" in m for m in infos):
        return "holds", "Confirmed over all paths", None
    if infos:
        return "inconclusive", infos[0], None
    tail = (err or "").strip().splitlines()[-3:]
    return "inconclusive", f"no verdict (rc={rc}) " + " | ".join(tail), None


def run_obligation(o: Obl, tmp: Path) -> Result:
    r = Result(obl=o)
    t_all = time.time()
    if o.engine == "script":
        return run_script(o, tmp)
    names = param_names(o.module, o.func)
    timeout = o.timeout * SCALE
    for attempt in (1, 2):
        stats = tmp / f"stats_{o.name}_{attempt}.json"
        out, err, rc, secs = run_crosshair(f"{o.module}.{o.func}", timeout, o.shadow, stats, HARNESS, o.env)
        r.attempts = attempt
        r.verdict, r.detail, r.kwargs = classify(out, err, rc, o.func, names)
        try:
            st = json.loads(stats.read_text())
            r.paths, r.nontrivial_paths = st.get("returned", 0), st.get("nontrivial", 0)
        except Exception:
            pass
        if r.verdict != "inconclusive" or o.expect == "finding":
            break
        if "Unable to meet precondition" in r.detail and secs < timeout * 0.5:
            break
        timeout *= 3  # one retry with a tripled budget before calling it inconclusive
    if r.kwargs is not None and o.extra:
        r.kwargs = {**r.kwargs, **o.extra}
    if r.verdict == "counterexample" and r.kwargs is None:
        r.verdict = "inconclusive"
        r.detail = "unparsable counterexample: " + r.detail
    r.seconds = time.time() - t_all
    return r


def run_twin(o: Obl, tmp: Path) -> bool:
    p = write_twin(tmp, o)
    env_extra = dict(o.env)
    env_extra["PYTHONPATH"] = os.pathsep.join(([str(SHADOW)] if o.shadow else []) + [str(SRC), str(ROOT), str(HARNESS), str(tmp)])
    out, err, rc, secs = run_crosshair(f"{p.stem}.twin", min(max(o.timeout, 30), 180) * SCALE, o.shadow, None, tmp, env_extra)
    return any(_MSG.match(ln) and _MSG.match(ln).group("kind") == "error" for ln in out.splitlines())


def run_script(o: Obl, tmp: Path) -> Result:
    """engine == 'script': /verif/harness/<module>.py is run with the venv python and
    prints one line `RESULT <json>` with keys verdict, detail, kwargs, queries, paths."""
    r = Result(obl=o)
    env = base_env(o.shadow)
    t0 = time.time()
    try:
        cp = subprocess.run([str(PY), str(HARNESS / f"{o.module}.py"), o.func, *map(str, o.script_args)],
                            env=env, cwd=str(HARNESS), capture_output=True, text=True,
                            timeout=o.timeout * SCALE * 2 + 60)
        out = cp.stdout
        tail = (cp.stderr or "").strip().splitlines()[-3:]
    except subprocess.TimeoutExpired:
        out, tail = "", ["wall timeout"]
    r.seconds = time.time() - t0
    for ln in out.splitlines():
        if ln.startswith("RESULT "):
            d = json.loads(ln[7:])
            r.verdict = d.get("verdict", "inconclusive")
            r.detail = d.get("detail", "")
            r.kwargs = d.get("kwargs")
            r.queries = d.get("queries", 0)
            r.paths = d.get("paths", r.queries)
            r.nontrivial_paths = d.get("nontrivial", r.paths)
            r.twin_reached = d.get("reachable", True)
            return r
    r.detail = "script gave no RESULT line: " + " | ".join(tail)
    return r


# ---------------------------------------------------------------- replay

def do_replay(replay: str, kwargs: dict, harness_message: str = "") -> tuple[bool | None, str]:
    """Run replay `module:function(**kwargs)` on the unmodified library with REAL lxml.
    If the replay itself dies with an exception raised INSIDE the library (innermost frame under
    src/odfdo) and the solver's counterexample was that same exception type, the failure reproduces:
    the library raises on an input the property quantifies over."""
    mod, fn = replay.split(":")
    env = base_env(False)
    code = (
        "import json,sys,importlib\n"
        "m=importlib.import_module(sys.argv[1]); f=getattr(m,sys.argv[2])\n"
        "kw=json.loads(sys.argv[3])\n"
        "try:\n"
        "    v,d=f(**kw)\n"
        "except Exception as e:\n"
        "    import traceback; v,d=None,'replay raised '+repr(e)+' '+traceback.format_exc()[-600:]\n"
        "    fr=traceback.extract_tb(e.__traceback__)[-1]\n"
        "    print('RAISED '+json.dumps({'type':type(e).__name__,'inlib':'/src/odfdo/' in fr.filename.replace(chr(92),'/')}))\n"
        "print('REPLAY '+json.dumps({'violated':v,'detail':str(d)}))\n"
    )
    try:
        cp = subprocess.run([str(PY), "-c", code, mod, fn, json.dumps(kwargs)], env=env, cwd=str(REPLAY_DIR),
                            capture_output=True, text=True, timeout=300)
    except subprocess.TimeoutExpired:
        return None, "replay timed out"
    raised = None
    for ln in cp.stdout.splitlines():
        if ln.startswith("RAISED "):
            raised = json.loads(ln[7:])
        if ln.startswith("REPLAY "):
            d = json.loads(ln[7:])
            if d["violated"] is None and raised and raised["inlib"] and raised["type"] in (harness_message or ""):
                return True, f"the library raises {raised['type']} on real lxml too: " + d["detail"]
            return d["violated"], d["detail"]
    return None, "replay produced nothing: " + (cp.stderr or "")[-400:]


def load_known() -> dict:
    if KNOWN.exists():
        return json.loads(KNOWN.read_text())
    return {"findings": [], "fixed": []}


# ---------------------------------------------------------------- main entry

def check_property(pid: str, tier: str, seed: int) -> int:
    ensure_venv()
    t0 = time.time()
    sys.path.insert(0, str(ROOT))
    prop = importlib.import_module(f"props.{pid}")
    obls = [o for o in prop.OBLIGATIONS if tier == "thorough" or o.tier == "quick"]
    known = load_known()
    findings = [f for f in known.get("findings", []) if f.get("property") == pid and f.get("status", "open") == "open"]
    lines = []
    exit_code = 0
    tmp = Path(tempfile.mkdtemp(prefix=f"verif_{pid}_"))
    finding_state = {}
    try:
        # 1. known findings: replay each listed witness on the real library
        for f in findings:
            w = f["witness"]
            v, d = do_replay(w["replay"], w["kwargs"])
            finding_state[f["id"]] = {"witness_reproduces": v, "detail": d[:300]}
            if v:
                lines.append(f"KNOWN-FINDING: property={pid} {f['id']}: {f['what']}")
            else:
                lines.append(f"NOTE: property={pid} listed finding {f['id']} no longer reproduces ({d[:120]})")
        # 1b. the lxml model is trusted base: validate it against real lxml before relying on it
        symdom_validation = {}
        if any(o.shadow for o in obls):
            cmds = [("xpath_diff", [str(ROOT / "bin" / "symdom_xpath_diff")])]
            if tier == "thorough":
                cmds.append(("repository_tests_on_model", [str(ROOT / "bin" / "symdom_validate")]))
            for label, cmd in cmds:
                try:
                    cp = subprocess.run(cmd, capture_output=True, text=True, timeout=1800, env=base_env(False))
                    tail = (cp.stdout.strip().splitlines() or [""])[-1]
                    symdom_validation[label] = {"exit": cp.returncode, "result": tail[:300]}
                    if cp.returncode != 0:
                        lines.append(f"HARNESS-ERROR property={pid} the lxml model disagrees with real lxml ({label}): {tail[:200]}")
                        exit_code = 3
                except subprocess.TimeoutExpired:
                    symdom_validation[label] = {"exit": None, "result": "timed out"}
        finding_state["_symdom_validation"] = symdom_validation
        # 2. obligations (+ reachability twins) in parallel
        order = sorted(obls, key=lambda o: -(o.weight or o.timeout))
        if seed:
            import random
            rnd = random.Random(seed)
            same = {}
            for o in order:
                same.setdefault(o.weight or o.timeout, []).append(o)
            order = []
            for k in sorted(same, reverse=True):
                rnd.shuffle(same[k])
                order += same[k]
        results: dict[str, Result] = {}
        with ThreadPoolExecutor(max_workers=WORKERS) as ex:
            futs = {o.name: ex.submit(run_obligation, o, tmp) for o in order}
            twins = {o.name: ex.submit(run_twin, o, tmp) for o in order if o.engine == "crosshair" and o.twin}
            for name, fu in futs.items():
                results[name] = fu.result()
            for name, fu in twins.items():
                try:
                    results[name].twin_reached = fu.result()
                except Exception as e:  # twin generation problem = harness problem
                    results[name].twin_reached = False
        # 3. classification
        finding_ids = {f["id"] for f in findings}
        n_hold = n_incon = n_viol = n_harness = 0
        rep_dir = OUT / "replays" / pid
        for o in order:
            r = results[o.name]
            reach = bool(r.twin_reached) or r.paths > 0 or r.verdict == "counterexample"
            if r.verdict == "counterexample":
                replay = o.replay or f"r_{o.module}:{o.func}"
                v, d = do_replay(replay, r.kwargs, r.detail)
                r.replayed, r.replay_detail = v, d[:500]
                rep_dir.mkdir(parents=True, exist_ok=True)
                rf = rep_dir / f"{o.name}.json"
                rf.write_text(json.dumps({"property": pid, "obligation": o.name, "replay": replay,
                                          "kwargs": r.kwargs, "message": r.detail}, indent=1))
                r.replay_file = str(rf)
                if o.expect == "finding":
                    if v:
                        if o.finding in finding_ids:
                            finding_state.setdefault(o.finding, {})["rederived"] = r.kwargs
                            lines.append(f"KNOWN-FINDING: property={pid} {o.finding}: solver re-derived a counterexample inside the listed region: {json.dumps(r.kwargs)}")
                        else:
                            n_viol += 1
                            lines.append(f"VIOLATION property={pid} replay={rf}")
                    else:
                        lines.append(f"NOTE: property={pid} companion {o.name}: counterexample did not replay ({d[:120]})")
                else:
                    if v:
                        n_viol += 1
                        lines.append(f"VIOLATION property={pid} replay={rf}")
                        lines.append(f"  obligation={o.name} inputs={json.dumps(r.kwargs)} :: {d[:300]}")
                    else:
                        n_harness += 1
                        lines.append(f"HARNESS-ERROR property={pid} obligation={o.name}: counterexample {json.dumps(r.kwargs)} ({r.detail[:200]}) does not reproduce on real lxml: {d[:300]}")
            elif r.verdict == "holds":
                if o.expect == "finding":
                    lines.append(f"NOTE: property={pid} companion {o.name} of finding {o.finding} is now Confirmed: the finding is no longer derivable")
                elif not reach:
                    n_harness += 1
                    lines.append(f"HARNESS-ERROR property={pid} obligation={o.name}: confirmed but no path reached the assertion (vacuous)")
                else:
                    n_hold += 1
            else:
                if o.expect == "finding":
                    lines.append(f"NOTE: property={pid} companion {o.name}: no counterexample within {o.timeout}s ({r.detail[:100]})")
                else:
                    n_incon += 1
                    lines.append(f"INCONCLUSIVE property={pid} obligation={o.name}: {r.detail[:200]}")
        if n_viol:
            exit_code = 1
        elif n_harness or exit_code == 3:
            exit_code = 3
        elif n_incon and os.environ.get("VERIF_STRICT") == "1":
            exit_code = 2
        write_evidence(pid, tier, seed, prop, order, results, finding_state, lines, time.time() - t0,
                       n_hold, n_incon, n_viol, n_harness)
    finally:
        shutil.rmtree(tmp, ignore_errors=True)
    for ln in lines:
        print(ln)
    print(f"SUMMARY property={pid} tier={tier} obligations={len([o for o in obls if o.expect=='holds'])} "
          f"held={n_hold} inconclusive={n_incon} violations={n_viol} harness_errors={n_harness} "
          f"wall={time.time()-t0:.0f}s exit={exit_code}")
    return exit_code


def write_evidence(pid, tier, seed, prop, order, results, finding_state, lines, wall,
                   n_hold, n_incon, n_viol, n_harness):
    main = [o for o in order if o.expect == "holds"]
    samples = []
    for o in order:
        r = results[o.name]
        samples.append({
            "obligation": o.name, "harness": f"{o.module}.{o.func}", "engine": o.engine,
            "expect": o.expect, "verdict": r.verdict, "detail": r.detail[:200], "bounds": o.bounds,
            "seconds": round(r.seconds, 1), "paths_reaching_assertion": r.paths,
            "twin_counterexample": r.twin_reached, "attempts": r.attempts,
            **({"counterexample": r.kwargs, "replayed_on_real_lxml": r.replayed,
                "replay_detail": r.replay_detail[:200]} if r.kwargs is not None else {}),
            **({"finding": o.finding} if o.finding else {}),
        })
    encodes = sorted({e for o in order for e in o.encodes})
    stubs = sorted({s for o in order for s in o.stubs})
    paths = sum(results[o.name].paths for o in order)
    queries = sum(results[o.name].queries for o in order)
    distinct = sum(1 for o in main if results[o.name].verdict == "holds" and
                   (results[o.name].nontrivial_paths > 0 or results[o.name].twin_reached))
    ev = {
        "property_id": pid, "tier": tier, "seed": seed, "level": "other",
        "coverage": {
            "explanation": getattr(prop, "EXPLANATION", "") + " Verdicts: bounded symbolic execution of the real odfdo functions; "
                           "every path's negated post-condition is decided by z3 (CrossHair) or by z3+cvc5 (direct SMT); "
                           "'holds' means for every input inside the stated bounds, nothing outside them.",
            "obligations": len(main), "discharged": n_hold, "inconclusive": n_incon,
            "checker_cmd": f"bin/check {pid} --tier {tier}",
            "trusted_base": getattr(prop, "TRUSTED", []),
            "evaluations": max(paths + queries, 0),
            "distinct_nontrivial": distinct,
            "rule": "evaluations = symbolic paths that reached the post-condition (counted inside the harness processes) plus direct SMT queries; "
                    "distinct_nontrivial = distinct obligations Confirmed over all paths whose reachability twin (post: False) produced a counterexample "
                    "or whose path counter is positive",
            "samples": samples,
            "functions_encoded": encodes,
            "stubs": stubs,
            "solver_time_s": round(sum(results[o.name].seconds for o in order), 1),
            "known_findings": finding_state,
            "messages": lines,
            "harness_errors": n_harness,
            "outside_the_claim": getattr(prop, "OUTSIDE", ""),
        },
        "assumptions": getattr(prop, "ASSUMPTIONS", []),
        "wall_s": round(wall, 1),
        "violations": n_viol,
    }
    evd = OUT / "evidence"
    evd.mkdir(parents=True, exist_ok=True)
    (evd / f"{pid}.json").write_text(json.dumps(ev, indent=1, default=str))
    if tier == "thorough":  # kept apart too, so that a later quick run does not erase the record of the deep one
        (evd / "thorough").mkdir(exist_ok=True)
        (evd / "thorough" / f"{pid}.json").write_text(json.dumps(ev, indent=1, default=str))


def replay_file(pid: str, path: str) -> int:
    ensure_venv()
    d = json.loads(Path(path).read_text())
    v, detail = do_replay(d["replay"], d["kwargs"], d.get("message", ""))
    print(f"replay {d['obligation']} {json.dumps(d['kwargs'])}: violated={v} :: {detail}")
    if v:
        known = load_known()
        print(f"VIOLATION property={pid} replay={path}")
        return 1
    return 0 if v is False else 3


def main(argv=None):
    import argparse
    ap = argparse.ArgumentParser()
    ap.add_argument("pid")
    ap.add_argument("--tier", default=os.environ.get("VERIF_TIER", "quick"), choices=["quick", "thorough"])
    ap.add_argument("--replay")
    a = ap.parse_args(argv)
    seed = int(os.environ.get("VERIF_SEED", "0") or 0)
    if a.replay:
        return replay_file(a.pid, a.replay)
    return check_property(a.pid, a.tier, seed)


if __name__ == "__main__":
    sys.exit(main())
