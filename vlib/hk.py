"""Harness-side helpers (imported inside the CrossHair process).

`done(x)` marks "this path reached the post-condition"; the number of such
paths (and of calls) is dumped at interpreter exit to $VERIF_STATS so that the
runner can report measured path counts.  The counters never influence a
decision, so they cannot make CrossHair's replays non-deterministic.
"""
import atexit
import json
import os
import re

_STATS = {"returned": 0, "nontrivial": 0}


def done(x, nontrivial=True):
    _STATS["returned"] += 1
    if nontrivial:
        _STATS["nontrivial"] += 1
    return x


def _dump():
    path = os.environ.get("VERIF_STATS")
    if not path:
        return
    try:
        with open(path, "w") as f:
            json.dump(_STATS, f)
    except Exception:
        pass


atexit.register(_dump)

# Every harness process starts with clean regex caches (DESIGN section 2,
# "No state may leak between paths").
re.purge()


def xml_char_ok(c: str) -> bool:
    """XML 1.0 Char production (what real lxml accepts in text/attributes)."""
    o = ord(c)
    return (
        o == 0x9
        or o == 0xA
        or o == 0xD
        or (0x20 <= o <= 0xD7FF)
        or (0xE000 <= o <= 0xFFFD)
        or (0x10000 <= o <= 0x10FFFF)
    )


def xml_ok(s: str) -> bool:
    for c in s:
        if not xml_char_ok(c):
            return False
    return True


def over(s: str, alphabet: str) -> bool:
    for c in s:
        if c not in alphabet:
            return False
    return True
