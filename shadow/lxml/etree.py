"""symdom: a pure-Python model of the part of lxml.etree that odfdo uses.

Put first on PYTHONPATH for harness processes only (never for replays), so that CrossHair can
carry symbolic strings/ints through odfdo's element code; real lxml rejects proxies at its C
boundary.  Anything outside the modelled subset raises NotImplementedError, which makes the
obligation INCONCLUSIVE rather than silently wrong.

Modelled lxml semantics that matter to odfdo:
  * an element owns its tail: append/insert/remove/addnext move or drop the tail with it;
  * append/insert of an attached element moves it;
  * deepcopy copies the tail, detaches from the parent;
  * text()/attribute results are "smart strings" (getparent, is_text, is_tail, is_attribute);
  * XPath 1.0 subset: axes child, descendant, descendant-or-self, self, parent, ancestor,
    attribute (@), following-sibling, preceding-sibling; node tests name, *, text(), node();
    predicates [n], [$var], [last()], [last()-n], [@a], [@a=string], [path], [not(expr)],
    [position()=n]; union |; parenthesised expression with predicates; // abbreviation;
    string expressions: literals and concat().
"""
from xml.parsers import expat

__all__ = ["Element", "XPath", "_Element", "_ElementTree", "fromstring", "tostring", "parse", "XPathSyntaxError"]

_PREFIXES = {}  # uri -> prefix, learnt from parsed documents (serialisation only)


class XPathSyntaxError(Exception):
    pass


class XPathEvalError(Exception):
    pass


# ---------------------------------------------------------------- smart strings

class _SmartStr(str):
    def __new__(cls, s, parent, kind, attrname=None):
        o = str.__new__(cls, s)
        o._p = parent
        o.is_text = kind == "text"
        o.is_tail = kind == "tail"
        o.is_attribute = kind == "attr"
        o.attrname = attrname
        return o

    def getparent(self):
        return self._p


try:  # symbolic variant (CrossHair present): keeps the code points symbolic
    from crosshair.libimpl.builtinslib import LazyIntSymbolicStr as _Lazy

    class _SymSmartStr(_Lazy):
        def getparent(self):
            return self._p

except Exception:  # pragma: no cover
    _Lazy = None
    _SymSmartStr = None


def _smart(s, parent, kind, attrname=None):
    # NB: under CrossHair type() and isinstance() answer with the *Python* type of a symbolic value,
    # so the symbolic string class is recognised by its own attribute
    cps = getattr(s, "_codepoints", None) if _Lazy is not None else None
    if cps is None:
        if type(s) is not str:
            s = str(s)
        return _SmartStr(s, parent, kind, attrname)
    o = _SymSmartStr(cps)
    o._p = parent
    o.is_text = kind == "text"
    o.is_tail = kind == "tail"
    o.is_attribute = kind == "attr"
    o.attrname = attrname
    return o


# ---------------------------------------------------------------- elements

class _Attrib(dict):
    pass


class _Element:
    def __init__(self, tag, nsmap=None):
        self.tag = tag
        self.attrib = _Attrib()
        self.text = None
        self.tail = None
        self._children = []
        self._parent = None
        self.nsmap = dict(nsmap or {})

    @property
    def prefix(self):
        if self.tag.startswith("{"):
            return _PREFIXES.get(self.tag[1:].split("}")[0])
        return None

    def __len__(self):
        return len(self._children)

    def __iter__(self):
        return iter(list(self._children))

    def __getitem__(self, i):
        return self._children[i]

    def __delitem__(self, i):
        victims = self._children[i] if isinstance(i, slice) else [self._children[i]]
        for c in victims:
            c._parent = None
        del self._children[i]

    def __bool__(self):
        return True

    def iterchildren(self, *tags):
        if tags:
            return iter([c for c in self._children if c.tag in tags])
        return iter(list(self._children))

    def iterdescendants(self):
        for c in list(self._children):
            yield c
            yield from c.iterdescendants()

    def iter(self, *tags):
        if not tags or self.tag in tags:
            yield self
        for c in list(self._children):
            yield from c.iter(*tags)

    def getparent(self):
        return self._parent

    def getroottree(self):
        r = self
        while r._parent is not None:
            r = r._parent
        return _ElementTree(r)

    def _detach(self):
        p = self._parent
        if p is not None:
            p._children = [c for c in p._children if c is not self]
            self._parent = None

    def append(self, e):
        e._detach()
        e._parent = self
        self._children.append(e)

    def insert(self, pos, e):
        if e._parent is self:
            # lxml: moving within the same parent - remove first, then insert at pos
            self._children = [c for c in self._children if c is not e]
            e._parent = None
        else:
            e._detach()
        e._parent = self
        self._children.insert(pos, e)

    def extend(self, es):
        for e in list(es):
            self.append(e)

    def remove(self, e):
        for i, c in enumerate(self._children):
            if c is e:
                del self._children[i]
                e._parent = None
                return
        raise ValueError("Element is not a child of this node.")

    def replace(self, old, new):
        i = self.index(old)
        new._detach()
        self._children[i] = new
        new._parent = self
        old._parent = None

    def index(self, e):
        for i, c in enumerate(self._children):
            if c is e:
                return i
        raise ValueError("Element is not a child of this node.")

    def getnext(self):
        p = self._parent
        if p is None:
            return None
        i = p.index(self)
        return p._children[i + 1] if i + 1 < len(p._children) else None

    def getprevious(self):
        p = self._parent
        if p is None:
            return None
        i = p.index(self)
        return p._children[i - 1] if i > 0 else None

    def addnext(self, e):
        p = self._parent
        if p is None:
            raise TypeError("cannot add a sibling to the root")
        e._detach()
        e._parent = p
        p._children.insert(p.index(self) + 1, e)

    def addprevious(self, e):
        p = self._parent
        if p is None:
            raise TypeError("cannot add a sibling to the root")
        e._detach()
        e._parent = p
        p._children.insert(p.index(self), e)

    def get(self, k, default=None):
        return self.attrib.get(k, default)

    def set(self, k, v):
        if not isinstance(v, str):
            raise TypeError("Argument must be bytes or unicode, got '%s'" % type(v).__name__)
        self.attrib[k] = v

    def keys(self):
        return list(self.attrib.keys())

    def items(self):
        return list(self.attrib.items())

    def clear(self, keep_tail=False):
        for c in self._children:
            c._parent = None
        self._children = []
        self.attrib = _Attrib()
        self.text = None
        if not keep_tail:
            self.tail = None

    def __copy__(self):
        return self.__deepcopy__({})

    def __deepcopy__(self, memo):
        n = _Element(self.tag, self.nsmap)
        n.attrib = _Attrib(self.attrib)
        n.text = self.text
        n.tail = self.tail
        for c in self._children:
            cc = c.__deepcopy__(memo)
            cc._parent = n
            n._children.append(cc)
        return n

    def xpath(self, expr, namespaces=None, **kw):
        return XPath(expr, namespaces=namespaces)(self, **kw)

    def find(self, *a, **k):
        raise NotImplementedError("find")

    def findall(self, *a, **k):
        raise NotImplementedError("findall")


class _ElementTree:
    def __init__(self, root=None):
        self._root = root

    def getroot(self):
        return self._root

    def xpath(self, expr, namespaces=None, **kw):
        return XPath(expr, namespaces=namespaces)(self._root, **kw)


def Element(tag, attrib=None, nsmap=None, **extra):
    e = _Element(tag, nsmap)
    if nsmap:
        for p, u in nsmap.items():
            if p:
                _PREFIXES.setdefault(u, p)
    if attrib:
        for k, v in attrib.items():
            e.set(k, v)
    return e


def SubElement(parent, tag, attrib=None, nsmap=None):
    e = Element(tag, attrib, nsmap)
    parent.append(e)
    return e


# ---------------------------------------------------------------- parsing / serialising

def _clark(name):
    return "{" + name if "}" in name else name


def fromstring(data, parser=None):
    if isinstance(data, str):
        data = data.encode("utf-8")
    p = expat.ParserCreate(namespace_separator="}")
    p.buffer_text = True
    stack = []
    root = [None]

    def start_ns(prefix, uri):
        if prefix:
            _PREFIXES.setdefault(uri, prefix)

    def start(name, attrs):
        e = _Element(_clark(name))
        for k, v in attrs.items():
            e.attrib[_clark(k)] = v
        if stack:
            stack[-1].append(e)
        else:
            root[0] = e
        stack.append(e)

    def end(name):
        stack.pop()

    def chars(s):
        cur = stack[-1]
        if cur._children:
            last = cur._children[-1]
            last.tail = (last.tail or "") + s
        else:
            cur.text = (cur.text or "") + s

    p.StartNamespaceDeclHandler = start_ns
    p.StartElementHandler = start
    p.EndElementHandler = end
    p.CharacterDataHandler = chars
    try:
        p.Parse(data, True)
    except expat.ExpatError as e:
        raise XMLSyntaxError(str(e)) from e
    return root[0]


class XMLSyntaxError(SyntaxError):
    pass


def parse(source, parser=None):
    if hasattr(source, "read"):
        data = source.read()
    else:
        with open(source, "rb") as f:
            data = f.read()
    return _ElementTree(fromstring(data))


def _qname(tag, used):
    if tag.startswith("{"):
        uri, local = tag[1:].split("}")
        pfx = _PREFIXES.get(uri)
        if pfx is None:
            pfx = "ns%d" % len(_PREFIXES)
            _PREFIXES[uri] = pfx
        used[pfx] = uri
        return pfx + ":" + local
    return tag


def _esc_text(s):
    return s.replace("&", "&amp;").replace("<", "&lt;").replace(">", "&gt;").replace("\r", "&#13;")


def _esc_attr(s):
    return (s.replace("&", "&amp;").replace("<", "&lt;").replace('"', "&quot;")
            .replace("\n", "&#10;").replace("\r", "&#13;").replace("\t", "&#9;"))


def _ser(e, used, out):
    name = _qname(e.tag, used)
    attrs = "".join(' %s="%s"' % (_qname(k, used), _esc_attr(v)) for k, v in e.attrib.items())
    mark = len(out)
    out.append(None)  # placeholder for the start tag (xmlns added on the root later)
    if e.text:
        out.append(_esc_text(e.text))
    for c in e._children:
        _ser(c, used, out)
        if c.tail:
            out.append(_esc_text(c.tail))
    empty = len(out) == mark + 1
    out[mark] = (name, attrs, empty)
    if not empty:
        out.append("</%s>" % name)


def tostring(e, encoding=None, with_tail=True, pretty_print=False, xml_declaration=None, **kw):
    if isinstance(e, _ElementTree):
        e = e.getroot()
    used = {}
    out = []
    _ser(e, used, out)
    first = True
    parts = []
    for item in out:
        if isinstance(item, tuple):
            name, attrs, empty = item
            ns = ""
            if first:
                ns = "".join(' xmlns:%s="%s"' % (p, u) for p, u in sorted(used.items()))
                first = False
            parts.append("<%s%s%s%s>" % (name, ns, attrs, "/" if empty else ""))
        else:
            parts.append(item)
    text = "".join(parts)
    if with_tail and e.tail:
        text += _esc_text(e.tail)
    if encoding in ("unicode", str):
        return text
    data = text.encode("utf-8")
    if xml_declaration:
        data = b"<?xml version='1.0' encoding='UTF-8'?>\n" + data
    return data


# ---------------------------------------------------------------- XPath subset

_AXES = ("child", "descendant-or-self", "descendant", "self", "parent", "ancestor-or-self", "ancestor",
         "attribute", "following-sibling", "preceding-sibling")


def _tokenize(s):
    toks = []
    i = 0
    n = len(s)
    while i < n:
        c = s[i]
        if c in " \t\n\r":
            i += 1
        elif c in "\"'":
            j = s.find(c, i + 1)
            if j < 0:
                raise XPathSyntaxError("Unfinished literal")
            toks.append(("lit", s[i + 1:j]))
            i = j + 1
        elif s.startswith("//", i):
            toks.append(("op", "//"))
            i += 2
        elif s.startswith("::", i):
            toks.append(("op", "::"))
            i += 2
        elif s.startswith("..", i):
            toks.append(("op", ".."))
            i += 2
        elif s.startswith("!=", i):
            toks.append(("op", "!="))
            i += 2
        elif c in "/|()[]@=,.*$-":
            toks.append(("op", c))
            i += 1
        elif c.isdigit():
            j = i
            while j < n and s[j].isdigit():
                j += 1
            toks.append(("num", int(s[i:j])))
            i = j
        elif c.isalpha() or c == "_":
            # QName = NCName (':' (NCName | '*'))?  - at most one colon
            j = i
            while j < n and (s[j].isalnum() or s[j] in "_-."):
                j += 1
            if j + 1 < n and s[j] == ":" and s[j + 1] != ":" and (s[j + 1].isalpha() or s[j + 1] in "_*"):
                j += 1
                if s[j] == "*":
                    j += 1
                else:
                    while j < n and (s[j].isalnum() or s[j] in "_-."):
                        j += 1
            toks.append(("name", s[i:j]))
            i = j
        else:
            raise XPathSyntaxError("Invalid expression")
    toks.append(("end", None))
    return toks


class _P:
    """recursive-descent parser -> nested tuples"""

    def __init__(self, text):
        self.t = _tokenize(text)
        self.i = 0

    def peek(self, k=0):
        return self.t[min(self.i + k, len(self.t) - 1)]

    def next(self):
        tok = self.t[self.i]
        self.i += 1
        return tok

    def accept(self, kind, val=None):
        tok = self.peek()
        if tok[0] == kind and (val is None or tok[1] == val):
            self.i += 1
            return True
        return False

    def expect(self, kind, val=None):
        if not self.accept(kind, val):
            raise XPathSyntaxError("Invalid expression")

    def parse(self):
        e = self.expr()
        if self.peek()[0] != "end":
            raise XPathSyntaxError("Invalid expression")
        return e

    def expr(self):
        # Expr := Union (('=' | '!=') Union)?
        left = self.union()
        tok = self.peek()
        if tok == ("op", "=") or tok == ("op", "!="):
            self.next()
            right = self.union()
            return ("cmp", tok[1], left, right)
        return left

    def union(self):
        parts = [self.path()]
        while self.accept("op", "|"):
            parts.append(self.path())
        if len(parts) == 1:
            return parts[0]
        return ("union", parts)

    def primary_ahead(self):
        tok = self.peek()
        if tok[0] in ("lit", "num"):
            return True
        if tok == ("op", "(") or tok == ("op", "$"):
            return True
        if tok[0] == "name" and self.peek(1) == ("op", "(") and tok[1] not in ("text", "node", "comment"):
            return True
        return False

    def path(self):
        if self.primary_ahead():
            prim = self.primary()
            preds = []
            while self.peek() == ("op", "["):
                preds.append(self.predicate())
            steps = []
            while self.peek() in (("op", "/"), ("op", "//")):
                if self.next()[1] == "//":
                    steps.append(("descendant-or-self", ("node",), []))
                steps.append(self.step())
            if not preds and not steps:
                return prim
            return ("filter", prim, preds, steps)
        absolute = False
        steps = []
        if self.accept("op", "//"):
            absolute = True
            steps.append(("descendant-or-self", ("node",), []))
        elif self.accept("op", "/"):
            absolute = True
        steps.append(self.step())
        while self.peek() in (("op", "/"), ("op", "//")):
            if self.next()[1] == "//":
                steps.append(("descendant-or-self", ("node",), []))
            steps.append(self.step())
        return ("path", absolute, steps)

    def primary(self):
        tok = self.next()
        if tok[0] == "lit":
            return ("str", tok[1])
        if tok[0] == "num":
            return ("num", tok[1])
        if tok == ("op", "$"):
            name = self.next()
            return ("var", name[1])
        if tok == ("op", "("):
            e = self.expr()
            self.expect("op", ")")
            return ("group", e)
        if tok[0] == "name":
            fname = tok[1]
            self.expect("op", "(")
            args = []
            if not self.accept("op", ")"):
                args.append(self.arith())
                while self.accept("op", ","):
                    args.append(self.arith())
                self.expect("op", ")")
            return ("call", fname, args)
        raise XPathSyntaxError("Invalid expression")

    def arith(self):
        left = self.expr()
        while self.peek() == ("op", "-"):
            self.next()
            right = self.expr()
            left = ("sub", left, right)
        return left

    def step(self):
        if self.accept("op", ".."):
            return ("parent", ("node",), [])
        if self.accept("op", "."):
            return ("self", ("node",), [])
        axis = "child"
        if self.accept("op", "@"):
            axis = "attribute"
        elif self.peek()[0] == "name" and self.peek(1) == ("op", "::"):
            axis = self.next()[1]
            self.next()
            if axis not in _AXES:
                raise XPathSyntaxError("Invalid expression")
        tok = self.next()
        if tok == ("op", "*"):
            test = ("any",)
        elif tok[0] == "name":
            if self.peek() == ("op", "("):
                self.next()
                self.expect("op", ")")
                if tok[1] == "text":
                    test = ("text",)
                elif tok[1] == "node":
                    test = ("node",)
                else:
                    raise NotImplementedError("node test " + tok[1])
            else:
                test = ("name", tok[1])
        else:
            raise XPathSyntaxError("Invalid expression")
        preds = []
        while self.peek() == ("op", "["):
            preds.append(self.predicate())
        return (axis, test, preds)

    def predicate(self):
        self.expect("op", "[")
        if self.peek() == ("op", "]"):
            raise XPathSyntaxError("Invalid predicate")
        e = self.arith()
        if self.peek() != ("op", "]"):
            raise XPathSyntaxError("Invalid predicate")
        self.next()
        return e


def _doc_order(root):
    """document order numbers for elements (key id(el)) and text nodes
    (keys ("text", id(el)) / ("tail", id(el)))"""
    order = {}
    counter = [0]

    def visit(n):
        order[id(n)] = counter[0]
        counter[0] += 1
        order[("text", id(n))] = counter[0]
        counter[0] += 1
        for c in n._children:
            visit(c)
            order[("tail", id(c))] = counter[0]
            counter[0] += 1

    visit(root)
    return order


def _order_key(n, order):
    if isinstance(n, _Element):
        return order.get(id(n))
    if isinstance(n, str) and hasattr(n, "getparent"):
        p = n.getparent()
        if getattr(n, "is_attribute", False):
            k = order.get(id(p))
            return None if k is None else k + 0.5
        return order.get(("text" if n.is_text else "tail", id(p)))
    return None


class XPath:
    def __init__(self, path, namespaces=None, regexp=True, smart_strings=True, **kw):
        self.path = path
        self.ns = namespaces or {}
        try:
            self.ast = _P(path).parse()
        except XPathSyntaxError:
            raise

    def _tag(self, q):
        if ":" in q:
            pfx, name = q.split(":", 1)
            if pfx not in self.ns:
                raise XPathEvalError("Undefined namespace prefix")
            if name == "*":
                return ("ns", "{%s}" % self.ns[pfx])
            return "{%s}%s" % (self.ns[pfx], name)
        return q

    # ---- evaluation
    def __call__(self, ctx, **variables):
        if isinstance(ctx, _ElementTree):
            ctx = ctx.getroot()
        val = self._eval(self.ast, ctx, 1, 1, variables)
        if isinstance(val, list):
            return self._sorted(val, ctx)
        return val

    def _sorted(self, nodes, ctx):
        """node-sets are returned in document order, without duplicates"""
        if len(nodes) < 2:
            return nodes
        root = ctx
        if isinstance(root, str):
            root = root.getparent()
        while root._parent is not None:
            root = root._parent
        if isinstance(root, _DocNode):
            root = root.root
        order = _doc_order(root)
        seen = set()
        uniq = []
        for n in nodes:
            if isinstance(n, _DocNode):
                return nodes
            k = _order_key(n, order)
            if k is None:
                return nodes  # nodes from another tree / plain values: leave as computed
            if k in seen:
                continue
            seen.add(k)
            uniq.append((k, n))
        uniq.sort(key=lambda kn: kn[0])
        return [n for _, n in uniq]

    def _eval(self, node, ctx, pos, size, var):
        kind = node[0]
        if kind == "path":
            return self._path(node, ctx, var)
        if kind == "union":
            out = []
            for p in node[1]:
                r = self._eval(p, ctx, pos, size, var)
                if not isinstance(r, list):
                    raise XPathEvalError("Invalid type")
                out.extend(r)
            return self._sorted(out, ctx)
        if kind == "group":
            return self._eval(node[1], ctx, pos, size, var)
        if kind == "filter":
            base = self._eval(node[1], ctx, pos, size, var)
            if not isinstance(base, list):
                raise XPathEvalError("Invalid type")
            base = self._sorted(base, ctx)
            for pr in node[2]:
                base = self._apply_pred(base, pr, var)
            if node[3]:
                out = []
                for n in base:
                    out.extend(self._steps(n, node[3], var))
                return self._sorted(out, ctx)
            return base
        if kind == "str":
            return node[1]
        if kind == "num":
            return node[1]
        if kind == "var":
            if node[1] not in var:
                raise XPathEvalError("Undefined variable")
            return var[node[1]]
        if kind == "sub":
            return self._num(self._eval(node[1], ctx, pos, size, var)) - self._num(self._eval(node[2], ctx, pos, size, var))
        if kind == "cmp":
            left = self._eval(node[2], ctx, pos, size, var)
            right = self._eval(node[3], ctx, pos, size, var)
            eq = self._equal(left, right)
            return eq if node[1] == "=" else not eq
        if kind == "call":
            fname, args = node[1], node[2]
            if fname == "last" and not args:
                return size
            if fname == "position" and not args:
                return pos
            if fname == "not" and len(args) == 1:
                return not self._bool(self._eval(args[0], ctx, pos, size, var))
            if fname == "concat" and len(args) >= 2:
                return "".join(self._str(self._eval(a, ctx, pos, size, var)) for a in args)
            if fname == "count" and len(args) == 1:
                return len(self._eval(args[0], ctx, pos, size, var))
            raise NotImplementedError("XPath function " + fname)
        raise NotImplementedError("XPath node " + kind)

    def _num(self, v):
        if isinstance(v, bool):
            return 1 if v else 0
        if isinstance(v, int):
            return v
        raise NotImplementedError("number conversion")

    def _str(self, v):
        if isinstance(v, str):
            return v
        if isinstance(v, list):
            if not v:
                return ""
            first = v[0]
            if isinstance(first, str):
                return first
            raise NotImplementedError("string value of element")
        if isinstance(v, int):
            return str(v)
        raise NotImplementedError("string conversion")

    def _bool(self, v):
        if isinstance(v, list):
            return len(v) > 0
        if isinstance(v, str):
            return len(v) > 0
        return bool(v)

    def _equal(self, a, b):
        if isinstance(a, list) and isinstance(b, list):
            raise NotImplementedError("node-set = node-set")
        if isinstance(b, list):
            a, b = b, a
        if isinstance(a, list):
            for n in a:
                if isinstance(n, _Element):
                    raise NotImplementedError("string value of element")
                if isinstance(b, int) and not isinstance(b, bool):
                    raise NotImplementedError("number comparison of node-set")
                if n == b:
                    return True
            return False
        return a == b

    def _path(self, node, ctx, var):
        _, absolute, steps = node
        start = ctx
        if absolute:
            while start._parent is not None:
                start = start._parent
            # the document node: its only child is the root element
            return self._steps(_DocNode(start), steps, var)
        return self._steps(start, steps, var)

    def _steps(self, start, steps, var):
        nodes = [start]
        for axis, test, preds in steps:
            new = []
            for n in nodes:
                cands = self._axis(n, axis, test)
                for pr in preds:
                    cands = self._apply_pred(cands, pr, var)
                new.extend(cands)
            # de-duplicate, keep first-seen order (document order for forward axes from ordered input)
            seen = set()
            nodes = []
            for n in new:
                if isinstance(n, (_Element, _DocNode)):
                    if id(n) in seen:
                        continue
                    seen.add(id(n))
                nodes.append(n)
        return nodes

    def _axis(self, n, axis, test):
        if isinstance(n, str):
            if axis == "parent":
                # XPath's parent of a text node is its parent in the XML tree: for a tail that is the
                # parent of the element it follows (getparent() of an lxml smart string is that element)
                p = n.getparent()
                if p is not None and getattr(n, "is_tail", False):
                    p = p._parent
                return [p] if p is not None and self._match(p, test) else []
            if axis == "self":
                return [n] if test[0] in ("text", "node") else []
            return []
        if axis == "attribute":
            if isinstance(n, _DocNode):
                return []
            if test[0] == "any":
                return [_smart(v, n, "attr", k) for k, v in n.attrib.items()]
            if test[0] != "name":
                return []
            t = self._tag(test[1])
            if t in n.attrib:
                return [_smart(n.attrib[t], n, "attr", t)]
            return []
        if axis == "child":
            return self._children(n, test)
        if axis == "descendant":
            out = []
            self._desc(n, test, out)
            return out
        if axis == "descendant-or-self":
            out = []
            if self._match(n, test):
                out.append(n)
            self._desc(n, test, out)
            return out
        if axis == "self":
            return [n] if self._match(n, test) else []
        if isinstance(n, _DocNode):
            return []
        if axis == "parent":
            p = n._parent
            return [p] if p is not None and self._match(p, test) else []
        if axis in ("ancestor", "ancestor-or-self"):
            out = []
            p = n if axis == "ancestor-or-self" else n._parent
            while p is not None:
                if self._match(p, test):
                    out.append(p)
                p = p._parent
            return out
        if axis in ("following-sibling", "preceding-sibling"):
            p = n._parent
            if p is None:
                return []
            i = p.index(n)
            sibs = p._children[i + 1:] if axis == "following-sibling" else list(reversed(p._children[:i]))
            return [s for s in sibs if self._match(s, test)]
        raise NotImplementedError("axis " + axis)

    def _match(self, n, test):
        if isinstance(n, _DocNode):
            return test[0] == "node"
        if test[0] in ("any", "node"):
            return True
        if test[0] == "name":
            t = self._tag(test[1])
            if isinstance(t, tuple):
                return n.tag.startswith(t[1])
            return n.tag == t
        return False

    def _children(self, n, test):
        if isinstance(n, _DocNode):
            return [n.root] if self._match(n.root, test) else []
        out = []
        if test[0] in ("text", "node"):
            if n.text is not None and len(n.text) > 0:
                out.append(_smart(n.text, n, "text"))
        for c in n._children:
            if test[0] != "text" and self._match(c, test):
                out.append(c)
            if test[0] in ("text", "node") and c.tail is not None and len(c.tail) > 0:
                out.append(_smart(c.tail, c, "tail"))
        return out

    def _desc(self, n, test, out):
        if isinstance(n, _DocNode):
            if self._match(n.root, test):
                out.append(n.root)
            self._desc(n.root, test, out)
            return
        if test[0] in ("text", "node") and n.text is not None and len(n.text) > 0:
            out.append(_smart(n.text, n, "text"))
        for c in n._children:
            if test[0] != "text" and self._match(c, test):
                out.append(c)
            self._desc(c, test, out)
            if test[0] in ("text", "node") and c.tail is not None and len(c.tail) > 0:
                out.append(_smart(c.tail, c, "tail"))

    def _apply_pred(self, nodes, pred, var):
        size = len(nodes)
        out = []
        for i, n in enumerate(nodes):
            v = self._eval(pred, n, i + 1, size, var) if isinstance(n, (_Element, _DocNode)) or True else None
            if isinstance(v, bool):
                keep = v
            elif isinstance(v, int):
                keep = v == i + 1
            else:
                keep = self._bool(v)
            if keep:
                out.append(n)
        return out


class _DocNode:
    def __init__(self, root):
        self.root = root
        self._parent = None
        self._children = [root]
        self.attrib = {}
        self.text = None
        self.tag = None
