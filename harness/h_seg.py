"""C09 K-seg obligations: offset/position addressing of markup insertion, where only positions
matter.  The real `paragraph._by_regex_offset` wrapper (behind set_span / set_link) and the real
`Element._insert` with `_insert_find_text` (behind set_bookmark / set_reference_mark / insert_note
with a position) run on stub trees whose strings are ABSTRACT SEGMENT STRINGS: a string is a list of
(origin, lo, hi) pieces with symbolic integer bounds supporting len, truthiness and slicing with
Python's clamping.  Text-node lengths, offset, length, position and the probe index k are unbounded
symbolic ints; text equality is pointwise ("character k comes from the same origin index").
"""
import odfdo.element as E
import odfdo.paragraph as P
from odfdo.element import Element
from vlib.hk import done


class Seg:
    def __init__(self, pieces):
        self.pieces = pieces

    def __len__(self):
        n = 0
        for _, lo, hi in self.pieces:
            n = n + (hi - lo)
        return n

    def __bool__(self):
        if len(self) > 0:
            return True
        return False

    def __getitem__(self, sl):
        n = len(self)
        a = 0 if sl.start is None else sl.start
        b = n if sl.stop is None else sl.stop
        if a < 0:
            a = max(0, n + a)
        if b < 0:
            b = max(0, n + b)
        a = min(a, n)
        b = min(b, n)
        if b < a:
            b = a
        out = []
        pos = 0
        for o, lo, hi in self.pieces:
            ln = hi - lo
            s = max(a, pos)
            e = min(b, pos + ln)
            if e > s:
                out.append((o, lo + (s - pos), lo + (e - pos)))
            pos = pos + ln
        return Seg(out)

    def at(self, k):
        pos = 0
        for o, lo, hi in self.pieces:
            ln = hi - lo
            if k < pos + ln:
                return (o, lo + (k - pos))
            pos = pos + ln
        return None


def seg(origin, n):
    return Seg([(origin, 0, n)])


# ----------------------------------------------------------------- stub tree for _by_regex_offset
# (_by_regex_offset works on odfdo Element wrappers: .xpath, .text/.tail, .parent, .insert, .index)

class Node:
    def __init__(self, name, text=None, tail=None):
        self.name = name
        self.text = text
        self.tail = tail
        self.children = []
        self.parent = None

    def insert(self, child, position=None):
        child.parent = self
        self.children.insert(position, child)

    def add(self, child):
        child.parent = self
        self.children.append(child)
        return child

    def index(self, c):
        for i, x in enumerate(self.children):
            if x is c:
                return i
        raise ValueError

    def __bool__(self):
        return True

    def xpath(self, q):
        assert q == "descendant::text()"
        out = []

        def walk(n):
            if n.text is not None and len(n.text) > 0:
                out.append(Txt(n.text, n, True))
            for c in n.children:
                walk(c)
                if c.tail is not None and len(c.tail) > 0:
                    out.append(Txt(c.tail, c, False))

        walk(self)
        return out


class Txt:
    def __init__(self, s, parent, is_text):
        self.seg = s
        self.parent = parent
        self._t = is_text

    def __len__(self):
        return len(self.seg)

    def is_text(self):
        return self._t


def flat(n):
    pieces = list(n.text.pieces) if n.text is not None else []
    for c in n.children:
        pieces += flat(c)
        if c.tail is not None:
            pieces += list(c.tail.pieces)
    return pieces


def method(element, match, tail, *a, **k):
    # the wrapped set_span/set_link body: a new element holding the match, followed by the tail
    return Node("new", text=match, tail=tail)


wrapped = P._by_regex_offset(method)


def find_new(n):
    for c in n.children:
        if c.name == "new":
            return c
        r = find_new(c)
        if r is not None:
            return r
    return None


def count_nodes(n):
    k = 1
    for c in n.children:
        k += count_nodes(c)
    return k


def new_pos(n, acc=0):
    """number of characters before the node named 'new'"""
    pos = acc + (len(n.text) if n.text is not None else 0)
    for c in n.children:
        if c.name == "new":
            return pos
        r = new_pos(c, pos)
        if r is not None:
            return r
        pos = pos + len(Seg(flat(c))) + (len(c.tail) if c.tail is not None else 0)
    return None


def shape(kind, l0, l1, l2, l3, l4):
    """A: text <span>t</span> tail      B: text <span>t</span><a>t</a> tail
       C: text <span>t <i>t</i> tail</span> tail"""
    p = Node("p", text=seg("A", l0))
    if kind == "A":
        p.add(Node("span", text=seg("B", l1), tail=seg("C", l2)))
        return p, [l0, l1, l2]
    if kind == "B":
        p.add(Node("span", text=seg("B", l1), tail=None))
        p.add(Node("a", text=seg("C", l2), tail=seg("D", l3)))
        return p, [l0, l1, l2, l3]
    sp = p.add(Node("span", text=seg("B", l1), tail=seg("E", l4)))
    sp.add(Node("i", text=seg("C", l2), tail=seg("D", l3)))
    return p, [l0, l1, l2, l3, l4]


def _preserve(kind, l0, l1, l2, l3, l4, offset, length, k):
    p, lens = shape(kind, l0, l1, l2, l3, l4)
    before = Seg(flat(p))
    nodes = count_nodes(p)
    wrapped(p, offset=offset, length=length)
    after = Seg(flat(p))
    ok = len(after) == len(before) and after.at(k) == before.at(k)
    if offset >= len(before):
        # an address that matches nothing leaves the paragraph untouched
        ok = ok and find_new(p) is None and count_nodes(p) == nodes
    return done(ok)


def seg_preserve_A(l0: int, l1: int, l2: int, offset: int, length: int, k: int) -> bool:
    """
    pre: 0 <= l0 and 1 <= l1 and 0 <= l2 and 0 <= offset and 0 <= length and 0 <= k
    post: _
    """
    return _preserve("A", l0, l1, l2, 0, 0, offset, length, k)


def seg_preserve_B(l0: int, l1: int, l2: int, l3: int, offset: int, length: int, k: int) -> bool:
    """
    pre: 0 <= l0 and 1 <= l1 and 1 <= l2 and 0 <= l3 and 0 <= offset and 0 <= length and 0 <= k
    post: _
    """
    return _preserve("B", l0, l1, l2, l3, 0, offset, length, k)


def seg_preserve_C(l0: int, l1: int, l2: int, l3: int, l4: int, offset: int, length: int, k: int) -> bool:
    """
    pre: 0 <= l0 and 0 <= l1 and 1 <= l2 and 0 <= l3 and 0 <= l4 and 0 <= offset and 0 <= length and 0 <= k
    post: _
    """
    return _preserve("C", l0, l1, l2, l3, l4, offset, length, k)


def _node_of(lens, offset):
    """index of the text node containing `offset` and the position where that node ends"""
    acc = 0
    for i, ln in enumerate(lens):
        if offset < acc + ln:
            return i, acc + ln
        acc += ln
    return -1, acc


def _exact(kind, l0, l1, l2, l3, l4, offset, length, inside):
    p, lens = shape(kind, l0, l1, l2, l3, l4)
    before = Seg(flat(p))
    i, node_end = _node_of(lens, offset)
    crosses = offset + length > node_end
    if i < 0 or crosses != (not inside):
        return done(True, False)  # outside this obligation's region
    wrapped(p, offset=offset, length=length)
    new = find_new(p)
    want = before[offset:offset + length]
    return done(new is not None and new.text.pieces == want.pieces and new_pos(p) == offset)


def seg_exact_A(l0: int, l1: int, l2: int, offset: int, length: int) -> bool:
    """
    pre: 0 <= l0 and 1 <= l1 and 0 <= l2 and 0 <= offset and 1 <= length and offset + length <= l0 + l1 + l2
    post: _
    """
    # the inserted element wraps exactly text[offset:offset+length] and sits exactly at offset,
    # whenever that range lies inside one text node
    return _exact("A", l0, l1, l2, 0, 0, offset, length, True)


def seg_exact_B(l0: int, l1: int, l2: int, l3: int, offset: int, length: int) -> bool:
    """
    pre: 0 <= l0 and 1 <= l1 and 1 <= l2 and 0 <= l3 and 0 <= offset and 1 <= length and offset + length <= l0 + l1 + l2 + l3
    post: _
    """
    return _exact("B", l0, l1, l2, l3, 0, offset, length, True)


def seg_exact_C(l0: int, l1: int, l2: int, l3: int, l4: int, offset: int, length: int) -> bool:
    """
    pre: 0 <= l0 and 0 <= l1 and 1 <= l2 and 0 <= l3 and 0 <= l4 and 0 <= offset and 1 <= length and offset + length <= l0 + l1 + l2 + l3 + l4
    post: _
    """
    return _exact("C", l0, l1, l2, l3, l4, offset, length, True)


def seg_cross_A(l0: int, l1: int, l2: int, offset: int, length: int) -> bool:
    """
    pre: 0 <= l0 and 1 <= l1 and 0 <= l2 and 0 <= offset and 1 <= length and offset + length <= l0 + l1 + l2
    post: _
    """
    # companion of known finding C09-range-crosses-node: the range extends past the end of the
    # text node containing offset (expected: wraps only the part inside the first node)
    return _exact("A", l0, l1, l2, 0, 0, offset, length, False)


# ----------------------------------------------------------------- stub tree for Element._insert
# (_insert works on lxml nodes: getparent, insert, append, addnext, text, tail and smart strings)

class LNode:
    def __init__(self, name, text=None, tail=None):
        self.name = name
        self.text = text
        self.tail = tail
        self.kids = []
        self.par = None

    def getparent(self):
        return self.par

    def insert(self, i, e):
        e.par = self
        self.kids.insert(i, e)

    def append(self, e):
        e.par = self
        self.kids.append(e)
        return e

    def addnext(self, e):
        p = self.par
        i = [k is self for k in p.kids].index(True)
        e.par = p
        p.kids.insert(i + 1, e)


class Smart:
    def __init__(self, s, parent, is_text):
        self.seg = s
        self._p = parent
        self.is_text = is_text
        self.is_tail = not is_text

    def getparent(self):
        return self._p

    def __len__(self):
        return len(self.seg)

    def __getitem__(self, sl):
        return self.seg[sl]

    def __ch_pytype__(self):
        return str  # element.py tests isinstance(text, str) before slicing


def texts(n, out):
    if n.text is not None and len(n.text) > 0:
        out.append(Smart(n.text, n, True))
    for c in n.kids:
        texts(c, out)
        if c.tail is not None and len(c.tail) > 0:
            out.append(Smart(c.tail, c, False))
    return out


E._xpath_text_descendant = lambda cur: texts(cur, [])
E._xpath_text_main_descendant = lambda cur: texts(cur, [])


class W:
    """stand-in for an odfdo Element wrapper: only what _insert touches"""

    def __init__(self, node):
        self._Element__element = node

    @property
    def tail(self):
        return self._Element__element.tail

    @tail.setter
    def tail(self, v):
        self._Element__element.tail = v

    _insert_find_text = Element._insert_find_text
    _insert_before_after = Element._insert_before_after


def lflat(n):
    pieces = list(n.text.pieces) if n.text is not None else []
    for c in n.kids:
        pieces += lflat(c)
        if c.tail is not None:
            pieces += list(c.tail.pieces)
    return pieces


def mark_pos(n, acc=0):
    pos = acc + (len(n.text) if n.text is not None else 0)
    for c in n.kids:
        if c.name == "mark":
            return pos
        r = mark_pos(c, pos)
        if r is not None:
            return r
        pos = pos + len(Seg(lflat(c))) + (len(c.tail) if c.tail is not None else 0)
    return None


def lshape(kind, l0, l1, l2, l3, l4):
    def s(o, n):
        return seg(o, n) if n > 0 else None

    p = LNode("p", text=s("A", l0))
    if kind == "A":
        p.append(LNode("span", text=s("B", l1), tail=s("C", l2)))
    elif kind == "B":
        p.append(LNode("span", text=s("B", l1)))
        p.append(LNode("a", text=s("C", l2), tail=s("D", l3)))
    else:
        sp = p.append(LNode("span", text=s("B", l1), tail=s("E", l4)))
        sp.append(LNode("i", text=s("C", l2), tail=s("D", l3)))
    return p


def _insert_pos(kind, l0, l1, l2, l3, l4, pos, k, main_text):
    p = lshape(kind, l0, l1, l2, l3, l4)
    before = Seg(lflat(p))
    mark = LNode("mark")
    Element._insert(W(p), W(mark), position=pos, main_text=main_text)
    after = Seg(lflat(p))
    return done(len(after) == len(before) and after.at(k) == before.at(k) and mark_pos(p) == pos)


def seg_insert_A(l0: int, l1: int, l2: int, pos: int, k: int, main_text: bool) -> bool:
    """
    pre: 0 <= l0 and 1 <= l1 and 0 <= l2 and 0 <= pos <= l0 + l1 + l2 and 0 <= k
    post: _
    """
    # a mark inserted by character position sits exactly at that position and no character moves
    return _insert_pos("A", l0, l1, l2, 0, 0, pos, k, main_text)


def seg_insert_B(l0: int, l1: int, l2: int, l3: int, pos: int, k: int) -> bool:
    """
    pre: 0 <= l0 and 1 <= l1 and 1 <= l2 and 0 <= l3 and 0 <= pos <= l0 + l1 + l2 + l3 and 0 <= k
    post: _
    """
    return _insert_pos("B", l0, l1, l2, l3, 0, pos, k, False)


def seg_insert_C(l0: int, l1: int, l2: int, l3: int, l4: int, pos: int, k: int) -> bool:
    """
    pre: 0 <= l0 and 0 <= l1 and 1 <= l2 and 0 <= l3 and 0 <= l4 and 0 <= pos <= l0 + l1 + l2 + l3 + l4 and 0 <= k
    post: _
    """
    return _insert_pos("C", l0, l1, l2, l3, l4, pos, k, False)


def seg_insert_end(l0: int, l1: int, l2: int, k: int) -> bool:
    """
    pre: 0 <= l0 and 1 <= l1 and 0 <= l2 and 0 <= k
    post: _
    """
    # position=-1: after the last character
    p = lshape("A", l0, l1, l2, 0, 0)
    before = Seg(lflat(p))
    mark = LNode("mark")
    Element._insert(W(p), W(mark), position=-1)
    after = Seg(lflat(p))
    return done(len(after) == len(before) and after.at(k) == before.at(k) and mark_pos(p) == len(before))
