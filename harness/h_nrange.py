"""C19 A-level obligations (named ranges): a NamedRange written with an accepted table name and an
area is read back - by a fresh NamedRange built from a copy of its node - with the same table name
and area; building it does not rewrite the node (C15: reading never changes the document)."""
from copy import deepcopy

import symsupport as S
from odfdo.element import Element
from odfdo.table import NamedRange, _table_name_check
from vlib.hk import done

APOS = chr(39)


def _rt(tn, x, y, z, t):
    try:
        tn2 = _table_name_check(tn)
    except ValueError:
        return done(True, False)
    nr = NamedRange("nr", (x, y, z, t), tn)
    node = deepcopy(nr._Element__element)
    snap = S.canon(node)
    again = Element.from_tag(node)
    ok = again.table_name == tn2 and again.crange == (x, y, z, t) and again.start == (x, y) and again.end == (z, t)
    ok = ok and again.name == "nr" and type(again) is NamedRange
    return done(ok and S.canon(node) == snap)


def nr_roundtrip_name(tn: str) -> bool:
    """
    pre: 1 <= len(tn) <= 2 and all(c in ("a", " ", APOS, "b") for c in tn)
    post: _
    """
    # any accepted table name over {a, b, space, apostrophe}, fixed area A1:B2
    # (non-ASCII letters are left out: CrossHair's string model produced a counterexample with an
    # e-acute that does not reproduce when the same harness is executed concretely)
    return _rt(tn, 0, 0, 1, 1)


def nr_roundtrip_area(x: int, y: int, z: int, t: int, k: int) -> bool:
    """
    pre: 0 <= x <= z <= 3 and 0 <= y <= t <= 3 and 0 <= k <= 2
    post: _
    """
    # any area, table name one of three representative kinds (plain, with a space, with an apostrophe)
    return _rt(("ab", "a b", "a" + APOS + "b")[k], x, y, z, t)


def nr_roundtrip_dotted(tn: str, x: int, y: int) -> bool:
    """
    pre: 1 <= len(tn) <= 3 and all(c in ("a", ".", "$") for c in tn) and 0 <= x <= 3 and 0 <= y <= 3
    post: _
    """
    # companion of known finding C19-namedrange-dot-dollar: table names containing '.' or '$'
    return _rt(tn, x, y, x, y)


NAMES = ["ab", "a b", "b a", "a" + APOS + "b", "a b" + APOS + "c", "a" + APOS + APOS + "b", " a b ", "é a", "x y z"]


def nr_roundtrip_listed(k: int, x: int, y: int) -> bool:
    """
    pre: 0 <= k <= 8 and 0 <= x <= 2 and 0 <= y <= 2
    post: _
    """
    # longer representative names (spaces, inner apostrophes, doubled apostrophes, non-ASCII) chosen by a
    # symbolic index: here the solver only picks the case; the real code runs on concrete names
    return _rt(NAMES[k], x, y, x + 1, y + 1)
