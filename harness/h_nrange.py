"""C19 A-level obligations (named ranges): a NamedRange written with an accepted table name and an
area is read back - by a fresh NamedRange built from a copy of its node - with the same table name
and area; building it does not rewrite the node (C15: reading never changes the document)."""
from copy import deepcopy

import symsupport as S
from odfdo.element import Element
from odfdo.table import NamedRange, _table_name_check
from vlib.hk import done

APOS = chr(39)


def _rt(tn, x, y, z, t):
    try:
        tn2 = _table_name_check(tn)
    except ValueError:
        return done(True, False)
    nr = NamedRange("nr", (x, y, z, t), tn)
    node = deepcopy(nr._Element__element)
    snap = S.canon(node)
    again = Element.from_tag(node)
    ok = again.table_name == tn2 and again.crange == (x, y, z, t) and again.start == (x, y) and again.end == (z, t)
    ok = ok and again.name == "nr" and type(again) is NamedRange
    return done(ok and S.canon(node) == snap)


def nr_roundtrip_name(tn: str) -> bool:
    """
    pre: 1 <= len(tn) <= 2 and all(c in ("a", " ", APOS, "b") for c in tn)
    post: _
    """
    # any accepted table name over {a, b, space, apostrophe}, fixed area A1:B2
    # (non-ASCII letters are left out: CrossHair's string model produced a counterexample with an
    # e-acute that does not reproduce when the same harness is executed concretely)
    return _rt(tn, 0, 0, 1, 1)


def nr_roundtrip_area(x: int, y: int, z: int, t: int, k: int) -> bool:
    """
    pre: 0 <= x <= z <= 3 and 0 <= y <= t <= 3 and 0 <= k <= 2
    post: _
    """
    # any area, table name one of three representative kinds (plain, with a space, with an apostrophe)
    return _rt(("ab", "a b", "a" + APOS + "b")[k], x, y, z, t)


def nr_roundtrip_dotted(tn: str, x: int, y: int) -> bool:
    """
    pre: 1 <= len(tn) <= 3 and all(c in ("a", ".", "$") for c in tn) and 0 <= x <= 3 and 0 <= y <= 3
    post: _
    """
    # companion of known finding C19-namedrange-dot-dollar: table names containing '.' or '$'
    return _rt(tn, x, y, x, y)


NAMES = ["ab", "a b", "b a", "a" + APOS + "b", "a b" + APOS + "c", "a" + APOS + APOS + "b", " a b ", "é a", "x y z"]


def nr_roundtrip_listed(k: int, x: int, y: int) -> bool:
    """
    pre: 0 <= k <= 8 and 0 <= x <= 2 and 0 <= y <= 2
    post: _
    """
    # longer representative names (spaces, inner apostrophes, doubled apostrophes, non-ASCII) chosen by a
    # symbolic index: here the solver only picks the case; the real code runs on concrete names
    return _rt(NAMES[k], x, y, x + 1, y + 1)


def rename_updates_ranges(new: str) -> bool:
    """
    pre: 1 <= len(new) <= 2 and all(c in ("a", "b", " ") for c in new)
    post: _
    """
    # renaming a table updates the named ranges that point to it (and only those)
    import lxml.etree as ET
    from odfdo.table import Table
    try:
        new2 = _table_name_check(new)
    except ValueError:
        return done(True, False)
    root = Element.from_tag(
        "<office:document-content><office:body><office:spreadsheet>"
        "<table:table table:name='t1'/><table:table table:name='t'/><table:named-expressions/>"
        "</office:spreadsheet></office:body></office:document-content>")
    body = root.get_element("office:body/office:spreadsheet")
    exprs = body.get_element("table:named-expressions")
    exprs._Element__element.append(NamedRange("rng_a", (0, 0, 1, 1), "t1")._Element__element)
    exprs._Element__element.append(NamedRange("rng_b", (1, 1, 2, 2), "t")._Element__element)  # (a table whose name is a substring of the renamed one)
    table = body.get_elements("table:table")[0]
    table.name = new
    r1 = body.get_named_range("rng_a")
    r2 = body.get_named_range("rng_b")
    ok = table.name == new2 and r1.table_name == new2 and r1.crange == (0, 0, 1, 1) and r2.table_name == "t" and r2.crange == (1, 1, 2, 2)
    found = table.get_named_ranges(table_name=new2)
    return done(ok and len(found) == 1 and found[0].name == "rng_a")


def nr_read_is_pure(bx: int, by: int, x: int, y: int) -> bool:
    """
    pre: 0 <= bx <= 3 and 0 <= by <= 3 and 0 <= x <= 2 and 0 <= y <= 2
    post: _
    """
    # wrapping an existing named range (as every lookup does) never rewrites it, also when its stored
    # base cell is not the first cell of the range (files written by office suites)
    from odfdo.utils.coordinates import digit_to_alpha
    rng = "$t1.$" + digit_to_alpha(x) + "$" + str(y + 1) + ":.$" + digit_to_alpha(x + 1) + "$" + str(y + 2)
    base = "$t1.$" + digit_to_alpha(bx) + "$" + str(by + 1)
    node = Element.make_etree_element("table:named-range")
    T = "{urn:oasis:names:tc:opendocument:xmlns:table:1.0}"
    node.set(T + "name", "rng")
    node.set(T + "base-cell-address", base)
    node.set(T + "cell-range-address", rng)
    snap = S.canon(node)
    nr = Element.from_tag(node)
    ok = type(nr) is NamedRange and nr.table_name == "t1" and nr.crange == (x, y, x + 1, y + 1) and nr.name == "rng"
    return done(ok and S.canon(node) == snap)
