"""C20 A-level obligations: the real TOC.fill (toc.py, header.py, paragraph.py, element.py, body.py)
on the lxml model.  A text body with a table of contents and three headings of symbolic levels;
symbolic outline level; one heading text is a symbolic short string (white space included).
Oracle: entries are, in document order, exactly the headings whose level does not exceed the
outline level (0 = all), each reading `number`, one space, the heading's text and nothing else;
numbers follow the reference outline model applied to the LISTED headings; the title is kept;
filling twice changes nothing."""
import os

import lxml.etree as ET
import symsupport as S
from odfdo.element import Element
from odfdo.header import Header
from odfdo.toc import TOC
from vlib.hk import done

OFF = "urn:oasis:names:tc:opendocument:xmlns:office:1.0"


def ref_numbers(levels):
    counters = {}
    out = []
    for lv in levels:
        for k in list(counters):
            if k > lv:
                del counters[k]
        for k in range(1, lv):
            counters.setdefault(k, 1)
        counters[lv] = counters.get(lv, 0) + 1
        out.append(".".join(str(counters[i]) for i in range(1, lv + 1)) + ".")
    return out


def make_body(where):
    doc = ET.Element("{%s}document-content" % OFF)
    body = ET.Element("{%s}body" % OFF)
    doc.append(body)
    text = ET.Element("{%s}text" % OFF)
    body.append(text)
    return Element.from_tag(text)


def _fill(levels, titles, outline, toc_pos, twice, relevel=None):
    tbody = make_body(0)
    toc = TOC(title="Contents", outline_level=outline)
    items = [Header(lv, ti) for lv, ti in zip(levels, titles)]
    for i, h in enumerate(items):
        if i == toc_pos:
            tbody.append(toc)
        tbody.append(h)
    if toc_pos >= len(items):
        tbody.append(toc)
    toc.fill(use_default_styles=False)
    if twice:
        first = S.canon(toc._Element__element)
        toc.fill(use_default_styles=False)
        if S.canon(toc._Element__element) != first:
            return False
    if relevel is not None:
        # the requested outline level is changed through the property, then the TOC is filled again
        toc.outline_level = relevel
        toc.fill(use_default_styles=False)
        outline = relevel
    limit = outline if outline else 10
    kept = [(lv, ti) for lv, ti in zip(levels, titles) if lv <= limit]
    nums = ref_numbers([lv for lv, _ in kept])
    node = toc.body._Element__element
    entries = [e for e in node._children if e.tag == S.TXT + "p"]
    if len(entries) != len(kept):
        return False
    for e, n, (_, ti) in zip(entries, nums, kept):
        if S.plain_text(e) != n + " " + ti:
            return False
        for c in e._children:  # nothing else: only white-space elements may occur inside an entry
            if c.tag not in (S.TXT + "s", S.TXT + "tab"):
                return False
    title = [e for e in node._children if e.tag == S.TXT + "index-title"]
    return len(title) == 1 and S.plain_text(title[0]._children[0]) == "Contents"


# where the TOC sits among the headings and the outline level: concrete per process
TOC_POS = int(os.environ.get("VERIF_TOC_POS", "0"))
OUTLINE = int(os.environ.get("VERIF_TOC_OUTLINE", "0"))


def toc_levels(l0: int, l1: int, l2: int) -> bool:
    """
    pre: 1 <= l0 <= 3 and 1 <= l1 <= 3 and 1 <= l2 <= 3
    post: _
    """
    return done(_fill([l0, l1, l2], ["A", "B", "C"], OUTLINE, TOC_POS, False))


def toc_twice(l1: int, l2: int, outline: int) -> bool:
    """
    pre: 1 <= l1 <= 2 and 1 <= l2 <= 3 and 1 <= outline <= 2
    post: _
    """
    # filling again without changing the document changes nothing
    return done(_fill([1, l1, l2], ["A", "B", "C"], outline, 1, True))


def toc_text(l1: int, title: str, outline: int) -> bool:
    """
    pre: 1 <= l1 <= 2 and len(title) <= 2 and all(c in "a " for c in title) and 0 <= outline <= 2
    post: _
    """
    # heading text with white space (leading/trailing/double spaces become text:s inside the heading)
    return done(_fill([1, l1], ["A", title], outline, 0, False))


def toc_relevel(l1: int, l2: int, o2: int) -> bool:
    """
    pre: 1 <= l1 <= 2 and 1 <= l2 <= 3 and 0 <= o2 <= 2
    post: _
    """
    o1 = OUTLINE
    # fill at outline level o1, set toc.outline_level = o2 (0 = not limited), fill again: exactly the
    # headings of level <= o2
    return done(_fill([1, l1, l2], ["A", "B", "C"], o1, 1, False, relevel=o2))


# ---- the heading-listing tool (odfdo-headers) against the same outline model ----------------------
class _Out:
    def __init__(self):
        self.parts = []

    def write(self, s):
        self.parts.append(s)

    def flush(self):
        pass


IN_SPAN = os.environ.get("VERIF_SPAN", "0") == "1"


def tool_outline(l1: int, l2: int, title: str) -> bool:
    """
    pre: 1 <= l1 <= 2 and 1 <= l2 <= 3 and len(title) <= 2 and all(c in "a " for c in title)
    post: _
    """
    in_span = IN_SPAN
    # scripts/headers.py headers_document(document, depth) on a real Document (in-memory container):
    # one line per heading of level <= DEPTH, "<number> <heading text>", numbers from the same outline
    # model as the table of contents; the heading text complete, also when it sits in a span
    import sys
    from odfdo.paragraph import Span
    from odfdo.scripts.headers import headers_document
    from memdoc import memdoc
    depth = OUTLINE if OUTLINE else 999
    doc = memdoc()
    levels = [1, l1, l2]
    titles = ["A", title, "C"]
    for lv, ti in zip(levels, titles):
        if in_span and ti is title:
            h = Header(lv, "")
            h.append(Span(ti))
        else:
            h = Header(lv, ti)
        doc.body.append(h)
    out = _Out()
    saved = sys.stdout
    sys.stdout = out
    try:
        headers_document(doc, depth)
    finally:
        sys.stdout = saved
    text = "".join(out.parts)
    kept = [(lv, ti) for lv, ti in zip(levels, titles) if lv <= depth]
    nums = ref_numbers([lv for lv, _ in kept])
    exp = "".join(n + " " + ti + "\n" for n, (_, ti) in zip(nums, kept))
    return done(text == exp)
