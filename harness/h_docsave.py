"""C11 A-level obligation on Document.save itself: with a dict-backed Container subclass (no zip, no
filesystem) the real Document.save / get_part / XmlPart.serialize / pretty_serialize run on the lxml
model.  Which parts were touched before saving, the pretty flag, the order of two successive saves
and the paragraph text are symbolic.  Oracle: the in-memory trees of content.xml and styles.xml are
exactly what they were before saving (the generator stamp in meta.xml is the only licensed change),
and the bytes written for content.xml by a plain save are the same whether or not a pretty save came
first."""
import symsupport as S  # noqa: F401
from odfdo.document import Document
from vlib.hk import done

from memdoc import NS, MemContainer


def content_xml(t0, t1):
    return ('<office:document-content %s><office:automatic-styles/><office:body><office:text><text:p>%s<text:s/><text:span>%s</text:span>'
            '<draw:frame/><text:span>b</text:span></text:p></office:text></office:body></office:document-content>' % (NS, t0, t1)).encode()


TEXTS = ["", "a", " a "]


def _skel(n):
    """element structure, attributes and non-blank text (for parts without mixed content)"""
    return (n.tag, sorted(n.attrib.items()), (n.text or "").strip(), [_skel(c) for c in n._children], (n.tail or "").strip())


import os

K0 = int(os.environ.get("VERIF_K0", "0"))  # first text, concrete per process


def save_neutral(k1: int, touch_content: bool, touch_styles: bool, pretty_first: bool, touch_manifest: bool) -> bool:
    """
    pre: 0 <= k1 <= 2
    post: _
    """
    k0 = K0
    # (the part bytes must be concrete for the XML parser: the texts are chosen by symbolic indexes)
    t0, t1 = TEXTS[k0], TEXTS[k1]
    c = MemContainer({"content.xml": content_xml(t0, t1)})
    doc = Document(c)
    if touch_content:
        doc.body  # noqa: B018 - loads content.xml into the part cache before saving
    if touch_styles:
        doc.styles.root  # noqa: B018
    if touch_manifest:
        doc.manifest.add_full_path("Pictures/x.png", "image/png")  # an edit of the manifest made in memory
    ref_doc = Document(MemContainer({"content.xml": content_xml(t0, t1)}))
    ref_doc.save(pretty=False)
    plain_reference = ref_doc.container.saved[-1]["content.xml"]
    doc.save(pretty=pretty_first)
    content_after_1 = S.canon(doc.content.root._Element__element)
    styles_after_1 = S.canon(doc.styles.root._Element__element)
    doc.save(pretty=False)
    # what a plain save writes is the same XML whether or not a pretty save came first
    import lxml.etree as ET
    ok = S.canon(ET.fromstring(doc.container.saved[-1]["content.xml"])) == S.canon(ET.fromstring(plain_reference))
    ok = ok and S.canon(doc.content.root._Element__element) == content_after_1 == S.canon(ref_doc.content.root._Element__element)
    ok = ok and S.canon(doc.styles.root._Element__element) == styles_after_1 == S.canon(ref_doc.styles.root._Element__element)
    # every XML part the first save wrote (pretty or not) is, up to ignorable white space, what the plain save writes
    first, second = doc.container.saved[0], doc.container.saved[1]
    ok = ok and sorted(k for k, v in first.items() if v is not None) == sorted(k for k, v in second.items() if v is not None)
    for name in ("styles.xml", "meta.xml", "settings.xml", "META-INF/manifest.xml"):
        ok = ok and _skel(ET.fromstring(first[name])) == _skel(ET.fromstring(second[name]))
    if touch_manifest:
        ok = ok and b"Pictures/x.png" in first["META-INF/manifest.xml"]
    return done(ok)
