"""C11 A-level obligation on Document.save itself: with a dict-backed Container subclass (no zip, no
filesystem) the real Document.save / get_part / XmlPart.serialize / pretty_serialize run on the lxml
model.  Which parts were touched before saving, the pretty flag, the order of two successive saves
and the paragraph text are symbolic.  Oracle: the in-memory trees of content.xml and styles.xml are
exactly what they were before saving (the generator stamp in meta.xml is the only licensed change),
and the bytes written for content.xml by a plain save are the same whether or not a pretty save came
first."""
import symsupport as S  # noqa: F401
from odfdo.document import Document
from vlib.hk import done

from memdoc import NS, MemContainer


def content_xml(t0, t1):
    return ('<office:document-content %s><office:automatic-styles/><office:body><office:text><text:p>%s<text:s/><text:span>%s</text:span>'
            '<draw:frame/><text:span>b</text:span></text:p></office:text></office:body></office:document-content>' % (NS, t0, t1)).encode()


TEXTS = ["", "a", " a "]


def save_neutral(k0: int, k1: int, touch_content: bool, touch_styles: bool, pretty_first: bool) -> bool:
    """
    pre: 0 <= k0 <= 2 and 0 <= k1 <= 2
    post: _
    """
    # (the part bytes must be concrete for the XML parser: the texts are chosen by symbolic indexes)
    t0, t1 = TEXTS[k0], TEXTS[k1]
    c = MemContainer({"content.xml": content_xml(t0, t1)})
    doc = Document(c)
    if touch_content:
        doc.body  # noqa: B018 - loads content.xml into the part cache before saving
    if touch_styles:
        doc.styles.root  # noqa: B018
    ref_doc = Document(MemContainer({"content.xml": content_xml(t0, t1)}))
    ref_doc.save(pretty=False)
    plain_reference = ref_doc.container.saved[-1]["content.xml"]
    doc.save(pretty=pretty_first)
    content_after_1 = S.canon(doc.content.root._Element__element)
    styles_after_1 = S.canon(doc.styles.root._Element__element)
    doc.save(pretty=False)
    # what a plain save writes is the same XML whether or not a pretty save came first
    import lxml.etree as ET
    ok = S.canon(ET.fromstring(doc.container.saved[-1]["content.xml"])) == S.canon(ET.fromstring(plain_reference))
    ok = ok and S.canon(doc.content.root._Element__element) == content_after_1 == S.canon(ref_doc.content.root._Element__element)
    ok = ok and S.canon(doc.styles.root._Element__element) == styles_after_1 == S.canon(ref_doc.styles.root._Element__element)
    return done(ok)
