"""Shared set-up of A-level (symdom) harness processes.  Imported at module import time, never
inside a traced function ("No state may leak between paths").

* EText (odfdo's 15-line str subclass adapting lxml smart strings) cannot carry symbolic content
  under CrossHair (a str subclass realises).  The NAME `EText` in the odfdo modules is rebound to
  ETextShim: calling it builds a SymEText (CrossHair symbolic string + the same three members
  parent / is_text() / is_tail()), and isinstance(x, EText) keeps working because CrossHair's
  isinstance asks the value for its __ch_pytype__.
* xpath_compile is functools.cache'd, which would hash (realise) symbolic query strings: replaced
  by the uncached function body.
"""
import re

import lxml.etree as _etree

assert "shadow" in _etree.__file__, "symsupport must only be used with the lxml model first on PYTHONPATH"

import odfdo.element as E  # noqa: E402
import odfdo.paragraph as P  # noqa: E402
import odfdo.paragraph_base as PB  # noqa: E402
import odfdo.xmlpart as XP  # noqa: E402
from crosshair.libimpl.builtinslib import LazyIntSymbolicStr  # noqa: E402
from odfdo.element import Element  # noqa: E402


class SymEText(LazyIntSymbolicStr):
    def __init__(self, text_result):
        cps = getattr(text_result, "_codepoints", None)  # (isinstance is answered with the Python type under CrossHair)
        if cps is None:
            cps = list(map(ord, text_result))
        LazyIntSymbolicStr.__init__(self, cps)
        self._parent = text_result.getparent()
        self._is_text = text_result.is_text
        self._is_tail = text_result.is_tail

    @property
    def parent(self):
        return None if self._parent is None else Element.from_tag(tag_or_elem=self._parent)

    def is_text(self):
        return self._is_text

    def is_tail(self):
        return self._is_tail


class ETextShim(str):
    """bound to the name `EText` in the odfdo modules: ETextShim(x) builds a SymEText (through
    __new__, which CrossHair's call interception honours), isinstance(x, EText) sees a str subclass"""

    def __new__(cls, text_result):
        return SymEText(text_result)


SymEText.__ch_pytype__ = lambda self: ETextShim

for _m in (E, P, PB, XP):
    _m.EText = ETextShim


def _xpath_compile_uncached(path):
    return _etree.XPath(path, namespaces=E.ODF_NAMESPACES, regexp=False)


E.xpath_compile = _xpath_compile_uncached

re.purge()

TXT = "{urn:oasis:names:tc:opendocument:xmlns:text:1.0}"


def canon(node):
    """canonical dump of a symdom tree: (tag, sorted attrs, text, children, tail)"""
    return (node.tag, tuple(sorted(node.attrib.items())), node.text or "", tuple(canon(c) for c in node._children), node.tail or "")


def plain_text(node, top=True):
    """white-space-aware readable text of a paragraph-like node: text:s / text:tab / text:line-break
    contribute their characters, every other element contributes its content; notes and annotations
    contribute nothing"""
    out = node.text or ""
    for c in node._children:
        tag = c.tag
        if tag == TXT + "s":
            n = c.attrib.get(TXT + "c")
            out += " " * (int(n) if n is not None else 1)
        elif tag == TXT + "tab":
            out += "\t"
        elif tag == TXT + "line-break":
            out += "\n"
        elif tag == TXT + "note" or tag.endswith("}annotation"):
            pass
        else:
            out += plain_text(c, False)
        out += c.tail or ""
    return out


def collapse_tree(node):
    """ODF 1.2 6.1.2 collapsing (consumer reading) over a symdom paragraph tree -> the text a consumer
    shows, or None when a text:s has a count < 1.  Only text:s/tab/line-break and inline containers."""
    state = {"out": "", "last_space": True, "pending": False, "bad": False}

    def chars(s):
        for ch in s or "":
            if ch == " " or ch == "\t" or ch == "\n" or ch == "\r":
                if not state["last_space"]:
                    state["pending"] = True
                    state["last_space"] = True
            else:
                if state["pending"]:
                    state["out"] += " "
                    state["pending"] = False
                state["out"] += ch
                state["last_space"] = False

    def elem(e):
        for c in e._children:
            tag = c.tag
            if tag == TXT + "s" or tag == TXT + "tab" or tag == TXT + "line-break":
                if state["pending"]:
                    state["out"] += " "
                    state["pending"] = False
                if tag == TXT + "s":
                    n = c.attrib.get(TXT + "c")
                    k = int(n) if n is not None else 1
                    if k < 1:
                        state["bad"] = True
                    state["out"] += " " * k
                elif tag == TXT + "tab":
                    state["out"] += "\t"
                else:
                    state["out"] += "\n"
                state["last_space"] = False
            else:
                chars(c.text)
                elem(c)
            chars(c.tail)

    chars(node.text)
    elem(node)
    return None if state["bad"] else state["out"]
