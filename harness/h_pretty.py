"""C11 A-level obligations (pretty-printing half): the real container.pretty_indent (with the real
TEXT_CONTENT table) on the lxml model.  A paragraph inside office:text with one or two child
elements whose kinds range over representatives of both classes of TEXT_CONTENT (text:span,
text:a textual; draw:frame, text:note, office:annotation structural) and whose every text/tail is a
symbolic value in {None, "", strings of <= 1 character over {a, space}}.
Oracle: the paragraph's readable text under ODF white-space collapsing (frames, notes, annotations
contribute nothing), the attribute multiset and the element skeleton are identical before/after;
indenting twice = indenting once."""
import os
from typing import Optional

import lxml.etree as ET
import symsupport as S  # noqa: F401
from odfdo.container import pretty_indent
from vlib.hk import done

T = "urn:oasis:names:tc:opendocument:xmlns:text:1.0"
D = "urn:oasis:names:tc:opendocument:xmlns:drawing:1.0"
O = "urn:oasis:names:tc:opendocument:xmlns:office:1.0"
TAGS = ["text:span", "draw:frame", "text:note", "text:a", "office:annotation"]
from odfdo.element import Element as _OE  # noqa: E402


def _new(qname):
    # nodes are made the way odfdo makes them (parsed from a fragment with the ODF namespace
    # declarations), so that they carry their prefix like nodes of a loaded document
    return _OE.make_etree_element(qname)
STRUCTURAL = ("frame", "note", "text-box", "annotation")


def collapse_proj(node, st):
    tag = node.tag.rpartition("}")[2]
    if tag == "tab":
        st[0] = False
        return "\t"
    if tag == "line-break":
        st[0] = False
        return "\n"
    if tag == "s":
        st[0] = False
        return " "
    if tag in STRUCTURAL:
        return ""  # separate content, not part of this paragraph's character data
    out = ""
    for piece in [node.text] + [x for c in node._children for x in (c, c.tail)]:
        if piece is None:
            continue
        if isinstance(piece, ET._Element):
            out += collapse_proj(piece, st)
            continue
        for ch in piece:
            if ch in " \t\n\r":
                if not st[0]:
                    out += " "
                    st[0] = True
            else:
                out += ch
                st[0] = False
    return out


def para_text(p):
    return collapse_proj(p, [True]).rstrip(" ")


def skeleton(n):
    return (n.tag, tuple(sorted(n.attrib.items())), tuple(skeleton(c) for c in n._children))


NBSP = chr(160)


def ok_str(t):
    # NO-BREAK SPACE is text for ODF (not white space) although Python's str.strip() removes it
    return t is None or (len(t) <= 1 and all(c in ("a", " ", NBSP) for c in t))


def mk(kind1, t_p, t1, tail1, inner):
    body = _new("office:text")
    p = _new("text:p")
    p.set("{%s}style-name" % T, "P1")
    body.append(p)
    p.text = t_p
    e1 = _new(TAGS[kind1])
    p.append(e1)
    e1.text = t1
    e1.tail = tail1
    if inner:
        e1.append(_new("draw:text-box") if kind1 == 1 else _new("text:span"))
    return body, p


def _judge(body, p):
    before = para_text(p)
    sk = skeleton(body)
    pretty_indent(body)
    return para_text(p) == before and skeleton(body) == sk


def _in_finding_region(p):
    """known finding C11-pretty-leaks-space: a structural element (draw:frame, text:note,
    office:annotation ...) with an EMPTY tail inside a paragraph gets an indentation tail; when text
    precedes it and text follows (in a later sibling) the paragraph gains a space"""
    for c in p._children:
        if c.tag.rpartition("}")[2] in STRUCTURAL and not c.tail:
            return True
    return False


def pretty_one(kind1: int, t_p: Optional[str], t1: Optional[str], tail1: Optional[str], inner: bool) -> bool:
    """
    pre: 0 <= kind1 <= 4 and ok_str(t_p) and ok_str(t1) and ok_str(tail1)
    post: _
    """
    body, p = mk(kind1, t_p, t1, tail1, inner)
    return done(_judge(body, p))


def _two(kind1, kind2, t_p, t1, tail1, t2, want_region):
    body, p = mk(kind1, t_p, t1, tail1, False)
    e2 = _new(TAGS[kind2])
    p.append(e2)
    e2.text = t2
    if _in_finding_region(p) != want_region:
        return done(True, False)
    return done(_judge(body, p))


KIND1 = int(os.environ.get("VERIF_KIND1", "0"))  # kind of the first child (concrete per process)


def pretty_two(kind2: int, t_p: Optional[str], tail1: Optional[str], t2: Optional[str]) -> bool:
    """
    pre: 0 <= kind2 <= 4 and ok_str(t_p) and ok_str(tail1) and ok_str(t2)
    post: _
    """
    # text + two children, outside the known-finding region
    return _two(KIND1, kind2, t_p, None, tail1, t2, False)


def pretty_two_region(kind1: int, kind2: int, t_p: Optional[str], tail1: Optional[str], t2: Optional[str]) -> bool:
    """
    pre: 0 <= kind1 <= 4 and 0 <= kind2 <= 4 and ok_str(t_p) and ok_str(tail1) and ok_str(t2)
    post: _
    """
    # companion restricted to the known-finding region
    return _two(kind1, kind2, t_p, None, tail1, t2, True)


def pretty_part_pure(kind1: int, t_p: Optional[str], t1: Optional[str], tail1: Optional[str], inner: bool) -> bool:
    """
    pre: 0 <= kind1 <= 4 and ok_str(t_p) and ok_str(t1) and ok_str(tail1)
    post: _
    """
    # XmlPart.custom_pretty_tree / pretty_serialize (what Document.save(pretty=True) calls) leave the
    # part's in-memory tree exactly as it was, and indenting again gives the same output
    from odfdo.xmlpart import XmlPart
    body, p = mk(kind1, t_p, t1, tail1, inner)
    part = XmlPart.__new__(XmlPart)
    part.part_name = "content.xml"
    part._XmlPart__tree = ET._ElementTree(body)
    part._XmlPart__root = None
    before = S.canon(body)
    out1 = part.custom_pretty_tree()
    same = S.canon(body) == before and out1 is not body
    out2 = part.custom_pretty_tree()
    return done(same and S.canon(out1) == S.canon(out2) and S.canon(body) == before)
