"""C18 kernel obligations on odfdo.datatype / odfdo.utils.color (real functions)."""
from odfdo.datatype import Boolean, DateTime, Duration
from odfdo.utils.color import hexa_color
from vlib.hk import done
import os

D = int(os.environ.get("VERIF_DEPTH", "0"))  # thorough tier: deeper bounds (per process)
NB = 6 + D
NBE = 4 + D
NDP = 3 + D
NDZ = 8 + D
NHC = 3 + D
HMAX = 999 if D == 0 else 99999


def bool_rt(b: bool) -> bool:
    """
    post: _
    """
    e = Boolean.encode(b)
    return done(e == ("true" if b else "false") and Boolean.decode(e) is b)


def bool_reject(s: str) -> bool:
    """
    pre: len(s) <= NB
    post: _
    """
    # decode accepts exactly the two xsd:boolean literals odfdo writes
    try:
        v = Boolean.decode(s)
    except ValueError:
        return done(s != "true" and s != "false")
    return done((s == "true" and v is True) or (s == "false" and v is False))


def bool_encode_str(s: str) -> bool:
    """
    pre: len(s) <= NBE and all(c in "tTrue" for c in s)
    post: _
    """
    # encode of a str: only (case-insensitively) 'true'/'false' are accepted, and map to the lexical form
    try:
        e = Boolean.encode(s)
    except TypeError:
        return done(s.lower() != "true" and s.lower() != "false")
    return done((e == "true" and s.lower() == "true") or (e == "false" and s.lower() == "false"))


def pad2(n):
    # model of C's %02d for n >= 0 (validated differentially in the replay)
    return str(n).rjust(2, "0")


def dur_decode_rt(h: int, m: int, s: int, neg: bool) -> bool:
    """
    pre: 0 <= h <= HMAX and 0 <= m < 60 and 0 <= s < 60
    post: _
    """
    # the form Duration.encode writes: [-]PThhHmmMssS
    text = ("-" if neg else "") + "PT" + pad2(h) + "H" + pad2(m) + "M" + pad2(s) + "S"
    sign = -1 if neg else 1
    got = Duration.decode(text)
    return done(got.days * 86400 + got.seconds == sign * (h * 3600 + m * 60 + s) and got.microseconds == 0)


def dur_decode_days(d: int, h: int, m: int, s: int, neg: bool) -> bool:
    """
    pre: 0 <= d <= HMAX and 0 <= h < 24 and 0 <= m < 60 and 0 <= s < 60
    post: _
    """
    # the form other producers write: [-]PnDTnHnMnS
    text = ("-" if neg else "") + "P" + str(d) + "DT" + str(h) + "H" + str(m) + "M" + str(s) + "S"
    sign = -1 if neg else 1
    got = Duration.decode(text)
    return done(got.days * 86400 + got.seconds == sign * (d * 86400 + h * 3600 + m * 60 + s))


def dur_reject_prefix(s: str) -> bool:
    """
    pre: len(s) <= NDP and all(c in "-PT1HMSDx" for c in s)
    post: _
    """
    # anything that does not start with P / -P is rejected
    try:
        Duration.decode(s)
    except ValueError:
        return done(True)
    return done(s.startswith("P") or s.startswith("-P"))


class FakeDT:
    """stand-in for datetime: isoformat() returns an arbitrary string"""

    def __init__(self, text):
        self._t = text

    def isoformat(self):
        return self._t


def datetime_z(text: str) -> bool:
    """
    pre: len(text) <= NDZ
    post: _
    """
    # DateTime.encode only canonicalises a trailing +00:00 to Z and changes nothing else
    got = DateTime.encode(FakeDT(text))
    if text.endswith("+00:00"):
        return done(got == text[: len(text) - 6] + "Z")
    return done(got == text)


def hexa_color_str(s: str) -> bool:
    """
    pre: len(s) <= NHC
    pre: all(c in " #0aF" for c in s)
    post: _
    """
    # blank -> black; a '#'-string is passed through stripped; other names go to the CSS table
    try:
        got = hexa_color(s)
    except KeyError:
        t = s.strip()
        return done(bool(t) and not t.startswith("#"))
    t = s.strip()
    if not t:
        return done(got == "#000000")
    return done(t.startswith("#") and got == t)


HEXD = "0123456789abcdefABCDEF"
COLOR_ALPHA = "#+-_ 0aFx" + chr(0x661)  # (U+0661 ARABIC-INDIC DIGIT ONE: a digit for str.isalnum() and int(), not a hex digit of the schema)


def color_decode_form(p: str, q: str) -> bool:
    """
    pre: len(p) == 2 and len(q) == 2 and all(c in COLOR_ALPHA for c in p + q)
    post: _
    """
    # hex2rgb decodes exactly the strings of the form #RRGGBB (hex digits of the schema) and rejects the
    # rest; the string is p + "0aF" + q: first character, one digit of the red channel and the whole blue
    # channel are symbolic
    from odfdo.utils.color import hex2rgb
    s = p + "0aF" + q
    valid = s[0] == "#" and all(c in HEXD for c in s[1:])
    try:
        r, g, b = hex2rgb(s)
    except ValueError:
        return done(not valid)
    return done(valid and 0 <= r <= 255 and 0 <= g <= 255 and 0 <= b <= 255)


def color_decode_short(s: str) -> bool:
    """
    pre: len(s) <= 8 and len(s) != 7
    post: _
    """
    # any string that is not 7 characters long is rejected
    from odfdo.utils.color import hex2rgb
    try:
        hex2rgb(s)
    except ValueError:
        return done(True)
    return done(False)
