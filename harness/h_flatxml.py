"""C11 A-level obligation on the flat-XML packaging: the real Container._xml_content / _encoded_image
(container.py) on the lxml model, over a real in-memory Container (no path) whose parts are set with
set_part().  content.xml holds three frames; which picture each one shows - picture A, picture B, an
image linked by URL (no part in the package) or no image at all - is chosen by the solver, as is the
pretty flag.  Oracle: the flat document has, under office:document, the children of meta, settings,
styles and content in that order with the same element structure as the parts; each frame still has
exactly the image it had: an embedded picture as office:binary-data holding the base64 of ITS part,
a linked one untouched."""
import base64

import lxml.etree as ET
import symsupport as S  # noqa: F401
from odfdo.container import Container
from vlib.hk import done

from memdoc import DEFAULT_PARTS, NS

DRAW = "{urn:oasis:names:tc:opendocument:xmlns:drawing:1.0}"
OFFICE = "{urn:oasis:names:tc:opendocument:xmlns:office:1.0}"
XLINK = "{http://www.w3.org/1999/xlink}"
PICS = {"Pictures/a.png": b"AAAA-picture-a", "Pictures/b.png": b"picture-b"}
HREFS = [None, "Pictures/a.png", "Pictures/b.png", "http://example.com/x.png"]


def content_xml(ks):
    frames = ""
    for i, k in enumerate(ks):
        img = "" if HREFS[k] is None else '<draw:image xlink:href="%s" draw:mime-type="image/png"/>' % HREFS[k]
        frames += '<draw:frame draw:name="f%d">%s</draw:frame>' % (i, img)
    return ('<office:document-content %s><office:automatic-styles/><office:body><office:text><text:p>%s</text:p></office:text></office:body>'
            '</office:document-content>' % (NS, frames)).encode()


def _skel(n):
    return (n.tag, sorted(n.attrib.items()), (n.text or "").strip(), [_skel(c) for c in n._children])


def _pick(k):
    for i in range(4):  # (a chain of comparisons: each path builds concrete XML for the parser)
        if k == i:
            return i
    return 0


def flat_xml(k0: int, k1: int, k2: int, pretty: bool) -> bool:
    """
    pre: 0 <= k0 <= 3 and 0 <= k1 <= 3 and 0 <= k2 <= 3
    post: _
    """
    ks = [_pick(k0), _pick(k1), _pick(k2)]
    c = Container()
    for name, data in DEFAULT_PARTS.items():
        c.set_part(name, data)
    c.set_part("content.xml", content_xml(ks))
    for name, data in PICS.items():
        c.set_part(name, data)
    flat = ET.fromstring(c._xml_content(pretty))
    ok = flat.tag == OFFICE + "document"
    # the children of the four parts, in order, with the same structure (images aside)
    want = []
    for name in ("meta.xml", "settings.xml", "styles.xml", "content.xml"):
        for ch in ET.fromstring(c.get_part(name))._children:
            want.append(ch)
    ok = ok and len(flat._children) == len(want)
    for got, w in zip(flat._children, want):
        if w.tag != OFFICE + "body":
            ok = ok and _skel(got) == _skel(w)
    frames = [n for n in flat.iterdescendants() if n.tag == DRAW + "frame"]
    ok = ok and len(frames) == 3
    for i, fr in enumerate(frames):
        href = HREFS[ks[i]]
        imgs = [n for n in fr._children if n.tag == DRAW + "image"]
        if href is None:
            ok = ok and len(fr._children) == 0
        elif href in PICS:
            ok = ok and len(imgs) == 1 and len(fr._children) == 1
            if len(imgs) == 1:
                data = [n for n in imgs[0]._children if n.tag == OFFICE + "binary-data"]
                ok = ok and len(data) == 1 and base64.standard_b64decode((data[0].text or "").strip()) == PICS[href]
        else:
            ok = ok and len(imgs) == 1 and imgs[0].attrib.get(XLINK + "href") == href and len(imgs[0]._children) == 0
        ok = ok and fr.attrib.get(DRAW + "name") == "f%d" % i
    return done(ok)
