"""C12 A-level obligations (attribute half): for one registered element class and one constructor
parameter that names a PropDef property (selected per process by VERIF_CLS / VERIF_PARAM, the list
is computed from the imported package at run time), the property getter returns the constructor
argument right after construction AND on a fresh wrapper built by Element.from_tag from a copy of
the node, whose class is the same.  The argument value is symbolic."""
import importlib
import os
from copy import deepcopy

import symsupport as S  # noqa: F401
from odfdo.element import Element
from vlib.hk import done

_mod, _cls = os.environ.get("VERIF_CLS", "odfdo.paragraph:Span").split(":")
CLS = getattr(importlib.import_module(_mod), _cls)
PARAM = os.environ.get("VERIF_PARAM", "style")
D = int(os.environ.get("VERIF_DEPTH", "0"))  # thorough tier: deeper bounds (per process)
NA = 4 + D
NTC = 3 + D


def _find_prop():
    for k in CLS.__mro__:
        p = k.__dict__.get(PARAM)
        if isinstance(p, property):
            return p
    raise LookupError(PARAM)


try:
    PROP = _find_prop()
except LookupError:  # (attr_joint does not use it)
    PROP = None


def _get(e):
    # (the builtin getattr() with a dynamic name runs the property getter outside CrossHair's tracing,
    # where str(symbolic) realises: call the getter function directly)
    return PROP.fget(e)


EXTRA = eval(os.environ.get("VERIF_EXTRA", "{}"))  # other constructor arguments a valid call needs (concrete)


def _build(value):
    return CLS(**{PARAM: value}, **EXTRA)


def _check(e, value):
    again = Element.from_tag(deepcopy(e._Element__element))
    return _get(e) == value and type(again) is type(e) and _get(again) == value


def attr_str(s: str) -> bool:
    """
    pre: 1 <= len(s) <= NA and all(32 < ord(c) < 55296 for c in s) and s != "true" and s != "false"
    post: _
    """
    # any non-blank XML-legal string except the literal "true"/"false" (known finding C12-true-false-strings)
    return done(_check(_build(s), s))


def attr_bool(b: bool) -> bool:
    """
    post: _
    """
    e = _build(b)
    again = Element.from_tag(deepcopy(e._Element__element))
    got, got2 = _get(e), _get(again)
    # a False flag may be stored as absent (None): both readings mean "not set"
    if b:
        return done(got is True and got2 is True and type(again) is type(e))
    return done(got in (False, None) and got2 in (False, None) and type(again) is type(e))


def attr_true_string(k: int) -> bool:
    """
    pre: 0 <= k <= 1
    post: _
    """
    # companion of known finding C12-true-false-strings: the strings "true"/"false" come back as bool
    s = ("true", "false")[k]
    return done(_check(_build(s), s))


def text_content_arg(s: str) -> bool:
    """
    pre: len(s) <= NTC and all(c in ("a", " ", chr(10)) for c in s)
    post: _
    """
    # a constructor's text argument is exposed through text_content (ListItem, and a Cell's display
    # text), unchanged - trailing line feeds included - also on a fresh wrapper of a copy of the node
    from odfdo.list import ListItem
    li = ListItem(s)
    again = Element.from_tag(deepcopy(li._Element__element))
    return done(li.text_content == s and again.text_content == s and type(again) is ListItem)


# ---- all constructor arguments together --------------------------------------------------------
import inspect  # noqa: E402


def _joint_params():
    """(str PropDef parameters, element-typed parameters) of CLS.__init__"""
    props = {}
    for k in reversed(CLS.__mro__):
        for p in getattr(k, "_properties", ()):
            props[p.name] = p
    strs, elems = [], []
    for pname, par in inspect.signature(CLS.__init__).parameters.items():
        ann = str(par.annotation)
        if pname in props and ann in ("str", "str | None"):
            strs.append(pname)
        elif "Element" in ann and pname in ("text_or_element", "list_content"):  # a content argument: any element will do
            elems.append(pname)
    return strs, elems


JOINT_STR, JOINT_ELEM = _joint_params()
SKIP_JOINT = set(eval(os.environ.get("VERIF_SKIP", "[]")))


def attr_joint(s: str, with_body: bool) -> bool:
    """
    pre: 1 <= len(s) <= 2 and all(32 < ord(c) < 127 for c in s)
    post: _
    """
    # every string argument given TOGETHER (each its own value s + letter), with or without an element
    # as body argument: each property still gives its own argument, right away and after re-parsing
    from odfdo.paragraph import Paragraph
    names = [p for p in JOINT_STR if p not in SKIP_JOINT]
    kw = {p: s + chr(97 + i) for i, p in enumerate(names)}
    if with_body:
        for p in JOINT_ELEM:
            kw[p] = Paragraph("body")
    kw.update(EXTRA)
    e = CLS(**kw)
    again = Element.from_tag(deepcopy(e._Element__element))
    ok = type(again) is type(e)
    for i, p in enumerate(names):
        prop = None
        for k in CLS.__mro__:
            if isinstance(k.__dict__.get(p), property):
                prop = k.__dict__[p]
                break
        ok = ok and prop.fget(e) == s + chr(97 + i) and prop.fget(again) == s + chr(97 + i)
    return done(ok)
