"""C14 kernel obligations: the real path from each public lookup to the XPath text.

`Cap` is a Body whose two lxml-backed primitives (`get_elements`, `xpath`) record the query text
instead of evaluating it; everything between the public entry point and the query string
(`_filtered_element(s)`, `make_xpath_query`, Manifest's own formatting, get_named_range's own
formatting) is the repository's code.  Oracle: the query is the lookup's fixed template with,
in the predicate position, an XPath 1.0 string expression - a Literal or concat(Literal, ...) -
whose VALUE is the identifier (a 25-line lexer/evaluator, below).  That a well-formed
[@attr=<string>] selects exactly the nodes whose attribute equals the string is XPath semantics
implemented by libxml2 and is trusted, not re-derived.
"""
import os

import odfdo.element as E
from odfdo.body import Body
from odfdo.manifest import Manifest
from odfdo.utils.xpath_query import make_xpath_query
from vlib.hk import done, xml_ok


class Cap(Body):
    def __init__(self):
        self.q = None

    def get_elements(self, q):
        self.q = q
        return []

    def xpath(self, q):
        self.q = q
        return []


class CapManifest(Manifest):
    def __init__(self):
        self.q = None

    def xpath(self, q):
        self.q = q
        return []


def lex_literal(q, i):
    """XPath 1.0 Literal at q[i:] -> (value, end) or None"""
    if i >= len(q):
        return None
    quote = q[i]
    if quote != '"' and quote != "'":
        return None
    end = q.find(quote, i + 1)
    if end < 0:
        return None
    return q[i + 1:end], end + 1


def eval_string_expr(q, i):
    """Literal | concat(Literal {, Literal}) at q[i:] -> (value, end) or None"""
    if q.startswith("concat(", i):
        i += 7
        value = ""
        n = 0
        while True:
            while i < len(q) and q[i] == " ":
                i += 1
            lit = lex_literal(q, i)
            if lit is None:
                return None
            value += lit[0]
            n += 1
            i = lit[1]
            while i < len(q) and q[i] == " ":
                i += 1
            if i < len(q) and q[i] == ",":
                i += 1
                continue
            if i < len(q) and q[i] == ")" and n >= 2:
                return value, i + 1
            return None
    return lex_literal(q, i)


def pred_ok(q, prefix, name, suffix):
    """q == prefix + <XPath string expression whose value is name> + suffix.
    Cheap cases first (one string equality each): a "..." literal is valid iff name has no
    double quote, a '...' literal iff it has no apostrophe; only names with both kinds need the
    general evaluator (concat)."""
    if q is None:
        return False
    dq = '"' in name
    sq = "'" in name
    if not dq and q == prefix + '"' + name + '"' + suffix:
        return True
    if not sq and q == prefix + "'" + name + "'" + suffix:
        return True
    if not q.startswith(prefix):
        return False
    r = eval_string_expr(q, len(prefix))
    if r is None:
        return False
    value, end = r
    return value == name and q[end:] == suffix


# (lookup, expected text before the string expression, expected text after it)
LOOKUPS = [
    (lambda c, s: c.get_table(name=s), "descendant::table:table[@table:name=", "]"),
    (lambda c, s: c.get_frame(name=s), "descendant::draw:frame[@draw:name=", "]"),
    (lambda c, s: c.get_draw_page(name=s), "descendant::draw:page[@draw:name=", "]"),
    (lambda c, s: c.get_note(note_id=s), "descendant::text:note[@text:id=", "]"),
    (lambda c, s: c.get_variable_decl(s), "descendant::text:variable-decl[@text:name=", "]"),
    (lambda c, s: c.get_variable_set(s), "descendant::text:variable-set[@text:name=", "]"),
    (lambda c, s: c.get_user_field_decl(s), "descendant::text:user-field-decl[@text:name=", "]"),
    (lambda c, s: c.get_user_defined(s), "descendant::text:user-defined[@text:name=", "]"),
    (lambda c, s: c.get_bookmark(name=s), "descendant::text:bookmark[@text:name=", "]"),
    (lambda c, s: c.get_bookmark_start(name=s), "descendant::text:bookmark-start[@text:name=", "]"),
    (lambda c, s: c.get_bookmark_end(name=s), "descendant::text:bookmark-end[@text:name=", "]"),
    (lambda c, s: c.get_reference_mark_single(name=s), "descendant::text:reference-mark[@text:name=", "]"),
    (lambda c, s: c.get_reference_mark_start(name=s), "descendant::text:reference-mark-start[@text:name=", "]"),
    (lambda c, s: c.get_reference_mark_end(name=s), "descendant::text:reference-mark-end[@text:name=", "]"),
    (lambda c, s: c.get_annotation(name=s), "descendant::office:annotation[@office:name=", "]"),
    (lambda c, s: c.get_annotation_end(name=s), "descendant::office:annotation-end[@office:name=", "]"),
    (lambda c, s: c.get_text_change_deletion(idx=s), "descendant::text:change[@text:change-id=", "]"),
    (lambda c, s: c.get_text_change_start(idx=s), "descendant::text:change-start[@text:change-id=", "]"),
    (lambda c, s: c.get_style("paragraph", s), "(style:style|style:default-style)[@style:family=\"paragraph\"][@style:name=", "]"),
    (lambda c, s: c.get_style("paragraph", display_name=s), "(style:style|style:default-style)[@style:display-name=", "][@style:family=\"paragraph\"]"),
]
N_LOOKUPS = len(LOOKUPS)
ALPHA = "a" + chr(34) + chr(39)


K = int(os.environ.get("VERIF_K", "0"))  # which lookup (concrete per process)
D = int(os.environ.get("VERIF_DEPTH", "0"))  # thorough tier: deeper bounds (per process)
N_ANY = 3 + D    # identifier length, any character
N_Q = 4 + D      # identifier length over {a, ", '}
N_DIR = 2 + D


def lookup_query(name: str) -> bool:
    """
    pre: 1 <= len(name) <= N_ANY and all(32 <= ord(ch) < 55296 for ch in name)
    post: _
    """
    # any XML-legal characters, quotes and apostrophes included
    fn, prefix, suffix = LOOKUPS[K]
    c = Cap()
    fn(c, name)
    return done(pred_ok(c.q, prefix, name, suffix))


def lookup_query6(name: str) -> bool:
    """
    pre: N_Q <= len(name) <= N_Q and all(ch in ALPHA for ch in name)
    post: _
    """
    fn, prefix, suffix = LOOKUPS[K]
    c = Cap()
    fn(c, name)
    return done(pred_ok(c.q, prefix, name, suffix))


def direct_query(name: str, other: str) -> bool:
    """
    pre: 1 <= len(name) <= N_DIR and all(32 <= ord(ch) < 55296 for ch in name) and len(other) <= N_DIR - 1 and all(32 <= ord(ch) < 55296 for ch in other)
    post: _
    """
    # two predicates at once: the second identifier must not disturb the first (sorted attributes)
    q = make_xpath_query("descendant::text:note", text_id=name, note_class=other)
    if other:
        prefix1 = "descendant::text:note[@text:id="
        r = eval_string_expr(q, len(prefix1)) if q.startswith(prefix1) else None
        if r is None or r[0] != name:
            return done(False)
        rest = q[r[1]:]
        return done(pred_ok(rest, "][@text:note-class=", other, "]"))
    return done(pred_ok(q, "descendant::text:note[@text:id=", name, "]"))


def position_query(position: int) -> bool:
    """
    pre: -100 <= position <= 100
    post: _
    """
    # ( ... )[n] mimics Python list indexing: n = position+1, last(), last()-k
    q = make_xpath_query("a", position=position)
    if position >= 0:
        return done(q == "(a)[" + str(position + 1) + "]")
    if position == -1:
        return done(q == "(a)[last()]")
    return done(q == "(a)[last()-" + str(-position - 1) + "]")


def named_range_query(name: str) -> bool:
    """
    pre: 1 <= len(name) <= N_ANY
    post: _
    """
    # get_named_range formats its own predicate.  Only names the NamedRange.name setter accepts
    # are in scope ("identifier the API accepted"): word characters.
    for ch in name:
        if not (ch.isascii() and (ch.isalnum() or ch == "_")):
            return done(True, False)
    c = Cap()
    c.get_named_range(name)
    return done(pred_ok(c.q, "descendant::table:named-expressions/table:named-range[@table:name=", name, "][1]"))


def manifest_query(path: str, which: int) -> bool:
    """
    pre: 1 <= len(path) <= N_ANY and 0 <= which <= 1
    post: _
    """
    m = CapManifest()
    if which == 0:
        try:
            m._file_entry(path)
        except KeyError:
            pass
        return done(pred_ok(m.q, "//manifest:file-entry[attribute::manifest:full-path=", path, "]"))
    m.get_media_type(path)
    return done(pred_ok(m.q, "//manifest:file-entry[attribute::manifest:full-path=", path, "]/attribute::manifest:media-type"))


# ---- lookups whose query names the identifier twice, or that live outside Body ---------------------
def pred2_ok(q, p1, name, mid, suffix):
    """q == p1 + <expr = name> + mid + <expr = name> + suffix"""
    if q is None:
        return False
    dq = '"' in name
    sq = "'" in name
    if not dq and q == p1 + '"' + name + '"' + mid + '"' + name + '"' + suffix:
        return True
    if not sq and q == p1 + "'" + name + "'" + mid + "'" + name + "'" + suffix:
        return True
    if not q.startswith(p1):
        return False
    r = eval_string_expr(q, len(p1))
    if r is None or r[0] != name or not q.startswith(mid, r[1]):
        return False
    r2 = eval_string_expr(q, r[1] + len(mid))
    return r2 is not None and r2[0] == name and q[r2[1]:] == suffix


class CapRef(E.Element):
    """a reference-mark-start whose name is given and whose xpath() records the query"""

    def __init__(self, name):
        self._name = name
        self.q = None

    name = property(lambda self: self._name)

    def xpath(self, q):
        self.q = q
        return []


class CapDoc:
    """stands in for a Document: `body` is the recording Body"""

    def __init__(self):
        self.body = Cap()


TWICE = [
    (lambda c, s: c.get_reference_mark(name=s), "descendant::text:reference-mark-start[@text:name=", "] | descendant::text:reference-mark[@text:name=", "]"),
    (lambda c, s: c.get_text_change(idx=s), "descendant::text:change-start[@text:change-id=", "] | descendant::text:change[@text:change-id=", "]"),
]
ONCE_MORE = [
    (lambda c, s: c.get_references(name=s), "descendant::text:reference-ref[@text:ref-name=", "]"),
]


K2 = int(os.environ.get("VERIF_K2", "0"))  # which of these lookups (concrete per process)


def lookup_twice(name: str) -> bool:
    """
    pre: 1 <= len(name) <= N_ANY and all(32 <= ord(ch) < 55296 for ch in name)
    post: _
    """
    # union queries: the identifier filters BOTH branches (so that no mark of another name can match)
    c = Cap()
    if K2 < len(TWICE):
        fn, p1, mid, suffix = TWICE[K2]
        fn(c, name)
        return done(pred2_ok(c.q, p1, name, mid, suffix))
    fn, prefix, suffix = ONCE_MORE[K2 - len(TWICE)]
    fn(c, name)
    return done(pred_ok(c.q, prefix, name, suffix))


def referenced_text_query(name: str) -> bool:
    """
    pre: 1 <= len(name) <= N_ANY and all(32 <= ord(ch) < 55296 for ch in name)
    post: _
    """
    # ReferenceMarkStart/End.referenced_text(): both bounds of the text range carry the mark's own name
    from odfdo.reference import ReferenceMarkEnd, ReferenceMarkStart
    ok = True
    for cls in (ReferenceMarkStart, ReferenceMarkEnd):
        c = CapRef(name)
        cls.referenced_text(c)
        ok = ok and pred2_ok(c.q, "//text()[preceding::text:reference-mark-start[@text:name=", name, "] and following::text:reference-mark-end[@text:name=", "]]")
    return done(ok)


def document_table_query(name: str) -> bool:
    """
    pre: 1 <= len(name) <= N_ANY and all(32 <= ord(ch) < 55296 for ch in name)
    post: _
    """
    # Document-level table lookups (get_table_style, set_table_displayed, ...) resolve a str argument as a
    # table NAME, whatever it looks like (all digits included)
    from odfdo.document import Document
    d = CapDoc()
    Document._get_table(d, name)
    return done(pred_ok(d.body.q, "descendant::table:table[@table:name=", name, "]"))


def file_entry_attrs(path: str, media: str) -> bool:
    """
    pre: 1 <= len(path) <= 2 and len(media) <= 1 and all(32 <= ord(ch) < 55296 for ch in path + media)
    post: _
    """
    # Manifest.make_file_entry: the entry carries exactly the path and the media type it was given, whatever
    # characters they hold (&, <, quotes): nothing is interpreted as markup
    import symsupport  # noqa: F401  (asserts that the lxml model is in use)
    e = Manifest.make_file_entry(path, media)
    n = e._Element__element
    M = "{urn:oasis:names:tc:opendocument:xmlns:manifest:1.0}"
    return done(n.tag == M + "file-entry" and n.attrib.get(M + "full-path") == path and n.attrib.get(M + "media-type") == media and len(n._children) == 0)
