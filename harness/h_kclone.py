"""C10 KT obligations: clones of rows and tables are equal at birth and independent for life.
The REAL Row.clone (row.py) runs; Element.clone is the node-level deep copy of the layer.
Rows obtained through traverse()/rows/get_rows() carry the table's own map lists by reference
(CachedElement.get_elements -> from_tag_for_clone), which is where sharing can leak."""
from h_ktab import mktab, ref
from ktable import IntCell, KRow, KTable, wrap, snapshot, x_value
from vlib.hk import done


def kclone_row_from_traverse(r0: int, r1: int, k: int, n: int, qy: int) -> bool:
    """
    pre: 1 <= r0 <= 2 and 1 <= r1 <= 2 and 0 <= k < r0 + r1 and 2 <= n and 0 <= qy <= 4
    post: _
    """
    c0 = c1 = 1
    x = 0
    qx = 1
    t = mktab(r0, r1, c0, c1)
    rows = t.rows
    row = rows[k]
    c = row.clone
    born_equal = snapshot(c._n) == snapshot(row._n) and c.y == row.y and c._rmap == row._rmap and c.width == row.width
    snap = snapshot(t._n)
    tmap = t._tmap[:]
    cmap = t._cmap[:]
    # life of the clone: put into another table, repeat it, edit a cell
    t2 = KTable()
    t2.append_row(c, clone=False)
    c.repeated = n
    c.set_cell(x, IntCell(9))
    f = wrap(t._n)
    unchanged = (snapshot(t._n) == snap and t._tmap == tmap and t._cmap == cmap and t._tmap == f._tmap and t._cmap == f._cmap
                 and t.height == r0 + r1 and t.width == c0 + c1 and t.get_value((qx, qy)) == ref(r0, r1, c0, c1, qx, qy))
    return done(born_equal and unchanged)


def kclone_row_original_edit(c0: int, c1: int, x: int, rn: int, q: int) -> bool:
    """
    pre: 1 <= c0 and 1 <= c1 and 0 <= x and 1 <= rn and 0 <= q
    post: _
    """
    # editing the original after cloning is not observable on the clone (values, width, maps)
    row = KRow()
    row.append_cell(IntCell(1, c0), clone=False)
    row.append_cell(IntCell(2, c1), clone=False)
    row.y = 3
    c = row.clone
    snap = snapshot(c._n)
    rmap = c._rmap[:]
    row.set_cell(x, IntCell(9, rn))
    row.insert_cell(0, IntCell(8))
    exp = 1 if q < c0 else (2 if q < c0 + c1 else None)
    return done(snapshot(c._n) == snap and c._rmap == rmap and c._rmap == wrap(c._n)._rmap and c.get_value(q) == exp and c.width == c0 + c1 and c.y == 3)


def kclone_table(r0: int, r1: int, x: int, y: int, on_clone: bool, qx: int) -> bool:
    """
    pre: 1 <= r0 and 1 <= r1 and 0 <= x < 2 and 0 <= y < r0 + r1 and 0 <= qx <= 2
    post: _
    """
    c0 = c1 = 1
    qy = y
    # Table.clone: same content and maps at birth, cloning does not modify the original, and a
    # set_cell/insert_column on either twin is not observable on the other
    t = mktab(r0, r1, c0, c1, True, 0)
    snap = snapshot(t._n)
    c = t.clone
    born = snapshot(c._n) == snap and snapshot(t._n) == snap and c._tmap == t._tmap and c._cmap == t._cmap and c.size == t.size
    a, b = (c, t) if on_clone else (t, c)
    a.set_cell((x, y), IntCell(9))
    fb = wrap(b._n)
    indep = (snapshot(b._n) == snap and b._tmap == fb._tmap and b._cmap == fb._cmap and b.size == (c0 + c1, r0 + r1)
             and b.get_value((qx, qy)) == ref(r0, r1, c0, c1, qx, qy))
    changed = a.get_value((x, y)) == 9
    return done(born and indep and changed)
