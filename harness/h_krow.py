"""KT obligations, Row level: the real odfdo.row.Row methods (and element_cached.py) on the
typed-element layer (ktable.py).  Pre-state: a row of 2 (or 3) runs [1 x c0, 2 x c1(, 3 x c2)] with
unbounded symbolic repeats; operation arguments and the probe position q are unbounded symbolic
ints.  Conjunct sets selected by VERIF_WHICH (0 = all):
  1  grid semantics (value at q, width) read live and by the independent walk of the node tree
  2  live maps/answers == those of a FRESH wrapper over the same nodes == independent walk
  7  repeats >= 1, _set_repeated never fed < 1
  10 the caller's cell is neither inserted nor modified when the operation clones
"""
import os

from ktable import IntCell, KRow, wrap, x_row_value, x_total, snapshot
from vlib.hk import done

WHICH = int(os.environ.get("VERIF_WHICH", "0"))


def lookup(runs, q):
    acc = 0
    for payload, rep in runs:
        if q < acc + rep:
            return payload
        acc += rep
    return None


def total(runs):
    acc = 0
    for _, rep in runs:
        acc += rep
    return acc


def mkrow(reps, pre_read=False):
    row = KRow()
    i = 0
    for r in reps:
        i += 1
        row.append_cell(IntCell(i, r), clone=False)
    if pre_read:
        # populate the wrapper cache (_indexes["_rmap"]) before the mutation
        acc = 0
        for r in reps:
            row.get_cell(acc, clone=False)
            acc += r
    return row


def runs_of(reps):
    return [(i + 1, r) for i, r in enumerate(reps)]


def judge(row, exp, exp_width, q, arg=None, arg_snap=None):
    n = row._n
    live = row.get_value(q)
    c01 = live == exp and row.width == exp_width and x_row_value(n, q) == exp and x_total(n, "cell") == exp_width
    f = wrap(n)
    c02 = row._rmap == f._rmap and f.get_value(q) == live and live == x_row_value(n, q) and row.width == f.width
    c07 = True
    for k in n.kids:
        if k.kind != "cell" or k.rep < 1 or k.bad_set:
            c07 = False
    c10 = True
    if arg is not None:
        c10 = snapshot(arg._n) == arg_snap and all(k is not arg._n for k in n.kids) and arg._n.parent is None
    if WHICH == 1:
        return done(c01)
    if WHICH == 2:
        return done(c02)
    if WHICH == 7:
        return done(c07)
    if WHICH == 10:
        return done(c10)
    return done(c01 and c02 and c07 and c10)


def _set(reps, x, rn, q, pre_read, clone):
    row = mkrow(reps, pre_read)
    before = runs_of(reps)
    cell = IntCell(9, rn)
    snap = snapshot(cell._n)
    row.set_cell(x, cell, clone=clone)
    exp = 9 if x <= q < x + rn else lookup(before, q)
    return judge(row, exp, max(total(before), x + rn), q, cell if clone else None, snap)


def krow_set(c0: int, c1: int, x: int, rn: int, q: int, pre_read: bool, clone: bool) -> bool:
    """
    pre: 1 <= c0 and 1 <= c1 and 1 <= rn and 0 <= x and 0 <= q
    post: _
    """
    return _set([c0, c1], x, rn, q, pre_read, clone)


def krow_set_p0(c0: int, c1: int, x: int, rn: int, q: int, pre_read: bool, clone: bool) -> bool:
    """
    pre: 1 <= c0 and 1 <= c1 and 1 <= rn and 0 <= x < c0 and 0 <= q
    post: _
    """
    return _set([c0, c1], x, rn, q, pre_read, clone)


def krow_set_p1(c0: int, c1: int, x: int, rn: int, q: int, pre_read: bool, clone: bool) -> bool:
    """
    pre: 1 <= c0 and 1 <= c1 and 1 <= rn and c0 <= x < c0 + c1 and 0 <= q
    post: _
    """
    return _set([c0, c1], x, rn, q, pre_read, clone)


def krow_set_p2(c0: int, c1: int, x: int, rn: int, q: int, pre_read: bool, clone: bool) -> bool:
    """
    pre: 1 <= c0 and 1 <= c1 and 1 <= rn and c0 + c1 <= x and 0 <= q
    post: _
    """
    return _set([c0, c1], x, rn, q, pre_read, clone)


def krow_set_n3(c0: int, c1: int, c2: int, x: int, rn: int, q: int, pre_read: bool, clone: bool) -> bool:
    """
    pre: 1 <= c0 and 1 <= c1 and 1 <= c2 and 1 <= rn and 0 <= x and 0 <= q
    post: _
    """
    return _set([c0, c1, c2], x, rn, q, pre_read, clone)


def krow_set_none(c0: int, c1: int, x: int, q: int) -> bool:
    """
    pre: 1 <= c0 and 1 <= c1 and 0 <= x and 0 <= q
    post: _
    """
    row = mkrow([c0, c1])
    before = runs_of([c0, c1])
    row.set_cell(x)
    exp = None if q == x else lookup(before, q)
    return judge(row, exp, max(c0 + c1, x + 1), q)


def krow_set_value(c0: int, c1: int, x: int, v: int, q: int, pre_read: bool) -> bool:
    """
    pre: 1 <= c0 and 1 <= c1 and 0 <= x and 0 <= q
    post: _
    """
    row = mkrow([c0, c1], pre_read)
    before = runs_of([c0, c1])
    row.set_value(x, v)
    exp = v if q == x else lookup(before, q)
    return judge(row, exp, max(c0 + c1, x + 1), q)


def _insert(reps, x, rn, q, pre_read):
    row = mkrow(reps, pre_read)
    before = runs_of(reps)
    w = total(before)
    cell = IntCell(9, rn)
    snap = snapshot(cell._n)
    row.insert_cell(x, cell)
    if x <= q < x + rn:
        exp = 9
    elif q < x:
        exp = lookup(before, q)  # beyond the old width: padding = empty
    else:
        exp = lookup(before, q - rn)
    return judge(row, exp, max(w, x) + rn, q, cell, snap)


def krow_insert(c0: int, c1: int, x: int, rn: int, q: int, pre_read: bool) -> bool:
    """
    pre: 1 <= c0 and 1 <= c1 and 1 <= rn and 0 <= x and 0 <= q
    post: _
    """
    return _insert([c0, c1], x, rn, q, pre_read)


def krow_insert_n3(c0: int, c1: int, c2: int, x: int, rn: int, q: int, pre_read: bool) -> bool:
    """
    pre: 1 <= c0 and 1 <= c1 and 1 <= c2 and 1 <= rn and 0 <= x and 0 <= q
    post: _
    """
    return _insert([c0, c1, c2], x, rn, q, pre_read)


def krow_append(c0: int, c1: int, rn: int, q: int, clone: bool) -> bool:
    """
    pre: 1 <= c0 and 1 <= c1 and 1 <= rn and 0 <= q
    post: _
    """
    row = mkrow([c0, c1])
    before = runs_of([c0, c1])
    cell = IntCell(9, rn)
    snap = snapshot(cell._n)
    back = row.append_cell(cell, clone=clone)
    w = c0 + c1
    exp = 9 if w <= q < w + rn else lookup(before, q)
    ok_back = back.x == w + rn - 1  # append_cell stamps the last covered position
    return judge(row, exp, w + rn, q, cell if clone else None, snap) and ok_back


def _delete(reps, x, q, pre_read):
    row = mkrow(reps, pre_read)
    before = runs_of(reps)
    w = total(before)
    row.delete_cell(x)
    if x >= w:
        exp = lookup(before, q)
        ew = w
    else:
        exp = lookup(before, q) if q < x else lookup(before, q + 1)
        ew = w - 1
    return judge(row, exp, ew, q)


def krow_delete(c0: int, c1: int, x: int, q: int, pre_read: bool) -> bool:
    """
    pre: 1 <= c0 and 1 <= c1 and 0 <= x and 0 <= q
    post: _
    """
    return _delete([c0, c1], x, q, pre_read)


def krow_delete_n3(c0: int, c1: int, c2: int, x: int, q: int, pre_read: bool) -> bool:
    """
    pre: 1 <= c0 and 1 <= c1 and 1 <= c2 and 0 <= x and 0 <= q
    post: _
    """
    return _delete([c0, c1, c2], x, q, pre_read)


def krow_set_cells2_p0(c0: int, c1: int, start: int, rn1: int, rn2: int, q: int, clone: bool) -> bool:
    """
    pre: 1 <= c0 and 1 <= c1 and 1 <= rn1 and 1 <= rn2 and 0 <= start < c0 and 0 <= q
    post: _
    """
    return krow_set_cells2(c0, c1, start, rn1, rn2, q, clone)


def krow_set_cells2_p1(c0: int, c1: int, start: int, rn1: int, rn2: int, q: int, clone: bool) -> bool:
    """
    pre: 1 <= c0 and 1 <= c1 and 1 <= rn1 and 1 <= rn2 and c0 <= start < c0 + c1 and 0 <= q
    post: _
    """
    return krow_set_cells2(c0, c1, start, rn1, rn2, q, clone)


def krow_set_cells2_p2(c0: int, c1: int, start: int, rn1: int, rn2: int, q: int, clone: bool) -> bool:
    """
    pre: 1 <= c0 and 1 <= c1 and 1 <= rn1 and 1 <= rn2 and c0 + c1 <= start and 0 <= q
    post: _
    """
    return krow_set_cells2(c0, c1, start, rn1, rn2, q, clone)


def krow_set_cells2(c0: int, c1: int, start: int, rn1: int, rn2: int, q: int, clone: bool) -> bool:
    """
    pre: 1 <= c0 and 1 <= c1 and 1 <= rn1 and 1 <= rn2 and 0 <= start and 0 <= q
    post: _
    """
    # bulk set of two (repeated) cells from `start`: the second lands right after the first
    row = mkrow([c0, c1])
    before = runs_of([c0, c1])
    row.set_cells([IntCell(8, rn1), IntCell(9, rn2)], start=start, clone=clone)
    if start == 0 and (not clone) and 2 >= c0 + c1:
        # documented shortcut: the row is cleared and replaced by the given cells
        if q < rn1:
            exp = 8
        elif q < rn1 + rn2:
            exp = 9
        else:
            exp = None
        return judge(row, exp, rn1 + rn2, q)
    if start <= q < start + rn1:
        exp = 8
    elif start + rn1 <= q < start + rn1 + rn2:
        exp = 9
    else:
        exp = lookup(before, q)
    return judge(row, exp, max(c0 + c1, start + rn1 + rn2), q)


def krow_set_values2(c0: int, c1: int, start: int, q: int) -> bool:
    """
    pre: 1 <= c0 and 1 <= c1 and 0 <= start and 0 <= q
    post: _
    """
    row = mkrow([c0, c1])
    before = runs_of([c0, c1])
    row.set_values([8, 9], start=start)
    if start == 0 and 2 >= c0 + c1:
        exp = 8 if q == 0 else (9 if q == 1 else None)
        return judge(row, exp, 2, q)
    if q == start:
        exp = 8
    elif q == start + 1:
        exp = 9
    else:
        exp = lookup(before, q)
    return judge(row, exp, max(c0 + c1, start + 2), q)


def krow_negative(c0: int, c1: int, x: int, q: int) -> bool:
    """
    pre: 1 <= c0 and 1 <= c1 and -(c0 + c1) <= x < 0 and 0 <= q
    post: _
    """
    # C19: a negative position counts from the current end, for reads and writes alike
    row = mkrow([c0, c1])
    before = runs_of([c0, c1])
    w = c0 + c1
    same_read = row.get_value(x) == row.get_value(w + x) == lookup(before, w + x)
    cell = row.get_cell(x)
    stamped = cell.x == w + x
    row.set_cell(x, IntCell(9))
    exp = 9 if q == w + x else lookup(before, q)
    return judge(row, exp, w, q) and same_read and stamped


# ----------------------------------------------------------------- readers (C08 / C15)

def krow_get_cell(c0: int, c1: int, x: int, q: int, clone: bool) -> bool:
    """
    pre: 1 <= c0 and 1 <= c1 and 0 <= x and 0 <= q
    post: _
    """
    # C08: get_cell returns the addressed cell stamped with its coordinates; beyond the width an
    # empty cell, without growing the row; the documented copy is detached: writing to it does
    # not change the row.  C15: the read leaves nodes and maps untouched.
    row = mkrow([c0, c1])
    row.y = 7
    before = runs_of([c0, c1])
    snap = snapshot(row._n)
    rmap = row._rmap[:]
    cell = row.get_cell(x, clone=clone)
    ok = cell is not None and cell.x == x and cell.y == 7 and cell.get_value() == lookup(before, x)
    pure = snapshot(row._n) == snap and row._rmap == rmap and row.width == c0 + c1
    if clone or x >= c0 + c1:
        cell._n.payload = 99
        cell._n.rep = 1
        cell._n.kids.append(None)
        detached = snapshot(row._n) == snap and row.get_value(q) == lookup(before, q) and all(k is not cell._n for k in row._n.kids)
    else:
        detached = True
    return done(ok and pure and detached)


def krow_readers_small(c0: int, c1: int, start: int, end: int, k: int) -> bool:
    """
    pre: 1 <= c0 <= 2 and 1 <= c1 <= 2 and 0 <= start <= 5 and 0 <= end <= 5 and 0 <= k <= 4
    post: _
    """
    # expanding readers loop over every position: small repeats.  traverse(start, end) yields the
    # cells of positions max(start,0)..min(end, width-1), each stamped with its x, without repeat
    # count, detached; get_values agrees; nothing is modified (C08, C15, C19 'a range bounds the
    # result on both sides').
    row = mkrow([c0, c1])
    row.y = 5
    before = runs_of([c0, c1])
    w = c0 + c1
    snap = snapshot(row._n)
    cells = list(row.traverse(start, end))
    exp_n = max(0, min(end, w - 1) - start + 1)
    ok = len(cells) == exp_n
    if k < len(cells):
        c = cells[k]
        ok = ok and c.x == start + k and c.y == 5 and c.repeated is None and c.get_value() == lookup(before, start + k)
        c._n.payload = 99
        ok = ok and all(kid is not c._n for kid in row._n.kids)
    allc = row.cells
    ok = ok and len(allc) == w and (k >= w or (allc[k].x == k and allc[k].repeated is None and allc[k].get_value() == lookup(before, k)))
    vals = row.get_values()
    ok = ok and len(vals) == w and (k >= w or vals[k] == lookup(before, k))
    sub = row.get_values((start, end))
    ok = ok and len(sub) == exp_n and (k >= exp_n or sub[k] == lookup(before, start + k))
    ok = ok and row.get_cells((start, end)) is not None and len(row.get_cells((start, end))) == exp_n
    pure = snapshot(row._n) == snap and row.width == w and row._rmap == wrap(row._n)._rmap
    return done(ok and pure)
