"""C07 (names) and C20 (numbering) kernel obligations on real odfdo functions."""
import os
import string
from typing import List

from odfdo.table import NamedRange, _table_name_check
from odfdo.toc import TOC
from vlib.hk import done

FORBIDDEN = "[]*?:/" + chr(92) + chr(10)
NAME_ALPHA = "a '[]*?:/" + chr(92) + chr(10) + chr(9) + "é."


def office_rule(s):
    """the rule office applications apply to sheet names: not blank, none of [ ] * ? : / \\ nor a
    line feed, no apostrophe as first or last character"""
    if not s:
        return False
    for c in s:
        if c in FORBIDDEN:
            return False
    return not s.startswith("'") and not s.endswith("'")


def table_name_any3(name: str) -> bool:
    """
    pre: len(name) <= 3
    post: _
    """
    # every character allowed: accepted <=> office rule on the stripped name; returns the stripped name
    s = name.strip()
    try:
        r = _table_name_check(name)
        accepted = True
    except ValueError:
        r = None
        accepted = False
    return done(accepted == office_rule(s) and (not accepted or r == s))


def table_name_alpha5(name: str) -> bool:
    """
    pre: len(name) <= 5
    pre: all(c in NAME_ALPHA for c in name)
    post: _
    """
    s = name.strip()
    try:
        r = _table_name_check(name)
        accepted = True
    except ValueError:
        r = None
        accepted = False
    return done(accepted == office_rule(s) and (not accepted or r == s))


class NR(NamedRange):
    """NamedRange.name setter on a dict-backed element (no lxml): only the validation runs"""

    def __init__(self):
        self.attrs = {}

    def set_attribute(self, name, value):
        self.attrs[name] = value

    @property
    def document_body(self):
        return None


WS = chr(9) + chr(10) + chr(13)
WORD = string.ascii_letters + string.digits + "_"


def ref_shaped(s):
    """letters followed by digits, e.g. AB12 (a cell address)"""
    i = 0
    while i < len(s) and s[i] in string.ascii_letters:
        i += 1
    if i == 0 or i == len(s):
        return False
    for c in s[i:]:
        if c not in string.digits:
            return False
    return True


def named_range_name(name: str) -> bool:
    """
    pre: len(name) <= 3
    pre: all(32 <= ord(c) < 127 or c in WS for c in name)
    post: _
    """
    # ASCII names: accepted => non-blank, only word characters, not of cell-reference shape;
    # certainly valid (letter/underscore first, word characters, not reference shaped) => accepted.
    s = name.strip()
    nr = NR()
    try:
        NamedRange.name.fset(nr, name)
        accepted = True
    except ValueError:
        accepted = False
    if accepted:
        ok = bool(s) and all(c in WORD for c in s) and not ref_shaped(s) and nr.attrs.get("table:name") == s
        return done(ok)
    certainly_valid = bool(s) and all(c in WORD for c in s) and (s[0] in string.ascii_letters or s[0] == "_") and not ref_shaped(s)
    return done(not certainly_valid)


# ----------------------------------------------------------------- C20 numbering

def ref_numbers(levels):
    """reference outline numbering: a heading of level L increments counter L, resets deeper
    counters; missing shallower counters count as 1"""
    counters = {}
    out = []
    for lv in levels:
        for k in list(counters):
            if k > lv:
                del counters[k]
        for k in range(1, lv):
            counters.setdefault(k, 1)
        counters[lv] = counters.get(lv, 0) + 1
        out.append(tuple(counters[i] for i in range(1, lv + 1)))
    return out


A_LEVEL = int(os.environ.get("VERIF_A", "10"))  # level of the first heading (concrete per process)


def numbering_deep(b: int, c: int) -> bool:
    """
    pre: 1 <= b <= 10 and 1 <= c <= 10
    post: _
    """
    a = A_LEVEL
    # three headings of arbitrary levels 1..10 (deep levels and skipped levels included)
    idx = {}
    levels = [a, b, c]
    got = [TOC._header_numbering(idx, lv) for lv in levels]
    ref = ref_numbers(levels)
    exp = [".".join(str(x) for x in t) + "." for t in ref]
    return done(got == exp)


def numbering_noskip(levels: List[int]) -> bool:
    """
    pre: 1 <= len(levels) <= 5
    pre: all(1 <= lv <= 10 for lv in levels)
    pre: levels[0] == 1 and all(levels[i + 1] <= levels[i] + 1 for i in range(len(levels) - 1))
    post: _
    """
    idx = {}
    got = [TOC._header_numbering(idx, lv) for lv in levels]
    exp = [".".join(str(x) for x in t) + "." for t in ref_numbers(levels)]
    return done(got == exp)


def numbering_any(levels: List[int]) -> bool:
    """
    pre: 1 <= len(levels) <= 3
    pre: all(1 <= lv <= 4 for lv in levels)
    post: _
    """
    # arbitrary level sequences (skipped levels included) against the reference outline model,
    # whose numbers are strictly increasing in outline order (checked on the tuples)
    idx = {}
    got = [TOC._header_numbering(idx, lv) for lv in levels]
    ref = ref_numbers(levels)
    exp = [".".join(str(x) for x in t) + "." for t in ref]
    for i in range(len(ref) - 1):
        if not ref[i] < ref[i + 1]:
            return done(False)
    return done(got == exp)
