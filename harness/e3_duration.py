"""E3: direct SMT for Duration.encode (C18).  The function body is read from /repo's current source
with inspect/ast and executed symbolically over z3 terms:

  Python int  -> signed bit-vector of width 64 (faithful inside the stated bound: every intermediate
                 value stays below 2**53 in magnitude, asserted as part of the query's assumptions)
  int / int   -> Float64 division (RNE) of the exactly converted operands
  %02d % f    -> truncation toward zero (what C's %d conversion of a Python float does via int())
  a %= k, +, -, *, comparisons, if/else, unary minus: bit-vector arithmetic

An unsupported AST node aborts the obligation as INCONCLUSIVE.  Each query (one slice of 2**10
consecutive hour values, sign fixed) is decided by cvc5; designated slices are cross-checked with z3;
`unsat` from every solver asked is required.  The translation is validated on every run by evaluating
the generated terms on concrete vectors (tests/test_datatype.py literals + a boundary lattice) and
comparing with the real function.

usage: e3_duration.py slice <lo_days> <hi_days> <neg:0|1> <cross:0|1> <timeout_s>
       prints  RESULT {json}
"""
import ast
import inspect
import json
import sys
import textwrap
import time
from datetime import timedelta

import z3

import odfdo.datatype as DT

W = 64


class Unsupported(Exception):
    pass


def bv(n):
    return z3.BitVecVal(n, W)


class SymExec:
    """executes the statements of Duration.encode over z3 terms; path conditions are folded with If"""

    def __init__(self, days, seconds, micro, mode="bv"):
        self.mode = mode  # "bv": ints are 64-bit vectors, / is Float64;  "int": ints are mathematical integers (cut lemma only)
        self.has_fp = False
        self.floordivs = []
        self.big = []  # operands of / and % (must stay below 2**53 for the bit-vector/Float64 encoding to be faithful)
        self.env = {}
        self.attr = {"days": days, "seconds": seconds, "microseconds": micro}
        self.ret = None
        self.consts = {"DURATION_FORMAT": DT.DURATION_FORMAT}
        self.defs = []  # (fresh variable, defining term) for every integer % executed (cut points)

    def expr(self, node):
        if isinstance(node, ast.Constant):
            if isinstance(node.value, bool) or not isinstance(node.value, (int, str)):
                raise Unsupported(ast.dump(node))
            if isinstance(node.value, int):
                return bv(node.value) if self.mode == "bv" else z3.IntVal(node.value)
            return node.value
        if isinstance(node, ast.Name):
            if node.id in self.env:
                return self.env[node.id]
            if node.id in self.consts:
                return self.consts[node.id]
            raise Unsupported("name " + node.id)
        if isinstance(node, ast.Attribute) and isinstance(node.value, ast.Name) and node.value.id == "value":
            if node.attr in self.attr:
                return self.attr[node.attr]
            raise Unsupported("attribute " + node.attr)
        if isinstance(node, ast.UnaryOp) and isinstance(node.op, ast.USub):
            v = self.expr(node.operand)
            return -v
        if isinstance(node, ast.IfExp):
            c = self.cond(node.test)
            a, b = self.expr(node.body), self.expr(node.orelse)
            if isinstance(a, str) or isinstance(b, str):
                return ("ite_str", c, a, b)
            return z3.If(c, a, b)
        if isinstance(node, ast.Call) and isinstance(node.func, ast.Name) and not node.keywords:
            args = [self.expr(a) for a in node.args]
            if node.func.id == "abs" and len(args) == 1 and not z3.is_fp(args[0]):
                return z3.If(args[0] < 0, -args[0], args[0])
            if node.func.id == "int" and len(args) == 1:
                if z3.is_fp(args[0]):
                    return z3.fpToSBV(z3.RTZ(), args[0], z3.BitVecSort(W))
                return args[0]
            if node.func.id == "divmod" and len(args) == 2 and not z3.is_fp(args[0]):
                q = self.expr(ast.BinOp(left=node.args[0], op=ast.FloorDiv(), right=node.args[1]))
                r = self.expr(ast.BinOp(left=node.args[0], op=ast.Mod(), right=node.args[1]))
                return ("tuple", [q, r])
            raise Unsupported("call " + node.func.id)
        if isinstance(node, ast.BinOp):
            a = self.expr(node.left)
            if isinstance(node.op, ast.Mod) and isinstance(a, str):
                # FORMAT % (h, m, s): %02d of a float truncates toward zero
                if a != "PT%02dH%02dM%02dS" or not isinstance(node.right, ast.Tuple) or len(node.right.elts) != 3:
                    raise Unsupported("format " + a)
                fields = []
                for e in node.right.elts:
                    v = self.expr(e)
                    if self.mode == "bv" and z3.is_fp(v):
                        v = z3.fpToSBV(z3.RTZ(), v, z3.BitVecSort(W))
                    fields.append(v)
                return ("fmt", fields)
            b = self.expr(node.right)
            if isinstance(node.op, ast.Add):
                if isinstance(a, (str, tuple)):
                    return ("signed", a, b)
                return a + b
            if isinstance(node.op, ast.Sub):
                return a - b
            if isinstance(node.op, ast.Mult):
                return a * b
            if isinstance(node.op, ast.Mod):
                # operands are non-negative here (part of the cut lemma): Python % == srem.
                # The result becomes a fresh variable with a recorded definition, so that the
                # query can be decomposed at this point (see build_queries).
                self.big += [a, b]
                if self.mode == "int":
                    r = z3.Int("rem%d" % len(self.defs))
                    self.defs.append((r, a % b, a, b))  # z3's mod == Python's % for a positive divisor
                    return r
                r = z3.BitVec("rem%d" % len(self.defs), W)
                self.defs.append((r, z3.SRem(a, b), a, b))
                return r
            if isinstance(node.op, ast.FloorDiv):
                self.big += [a, b]
                self.floordivs.append((a, b))
                if self.mode == "int":
                    return a / b  # z3 Int division == Python // for a positive divisor (asserted via floordivs)
                return a / b  # signed bvsdiv; equals // for non-negative operands (asserted via floordivs)
            if isinstance(node.op, ast.Div):
                self.has_fp = True
                self.big += [a, b]
                if self.mode == "int":
                    return z3.Real("quot%d" % len(self.big))  # quotients play no part in the cut lemma
                fa = z3.fpSignedToFP(z3.RNE(), a, z3.Float64())
                fb = z3.fpSignedToFP(z3.RNE(), b, z3.Float64())
                return z3.fpDiv(z3.RNE(), fa, fb)
            raise Unsupported(ast.dump(node.op))
        raise Unsupported(ast.dump(node))

    def cond(self, node):
        if isinstance(node, ast.Compare) and len(node.ops) == 1:
            a = self.expr(node.left)
            b = self.expr(node.comparators[0])
            op = node.ops[0]
            if isinstance(op, ast.Lt):
                return a < b
            if isinstance(op, ast.LtE):
                return a <= b
            if isinstance(op, ast.Gt):
                return a > b
            if isinstance(op, ast.GtE):
                return a >= b
            if isinstance(op, ast.Eq):
                return a == b
        raise Unsupported(ast.dump(node))

    def block(self, stmts):
        for st in stmts:
            if isinstance(st, ast.Expr) and isinstance(st.value, ast.Constant):
                continue  # docstring
            if isinstance(st, ast.If) and isinstance(st.test, ast.UnaryOp) and isinstance(st.test.op, ast.Not) \
                    and isinstance(st.test.operand, ast.Call) and getattr(st.test.operand.func, "id", "") == "isinstance":
                continue  # type guard: the input IS a timedelta (assumption, listed)
            if isinstance(st, ast.Assign) and len(st.targets) == 1 and isinstance(st.targets[0], ast.Name):
                self.env[st.targets[0].id] = self.expr(st.value)
            elif isinstance(st, ast.Assign) and len(st.targets) == 1 and isinstance(st.targets[0], ast.Tuple):
                v = self.expr(st.value)
                names = st.targets[0].elts
                if not (isinstance(v, tuple) and v[0] == "tuple" and len(v[1]) == len(names) and all(isinstance(n, ast.Name) for n in names)):
                    raise Unsupported("tuple assignment")
                for n, x in zip(names, v[1]):
                    self.env[n.id] = x
            elif isinstance(st, ast.AugAssign) and isinstance(st.target, ast.Name):
                cur = ast.BinOp(left=ast.Name(id=st.target.id, ctx=ast.Load()), op=st.op, right=st.value)
                self.env[st.target.id] = self.expr(cur)
            elif isinstance(st, ast.If):
                c = self.cond(st.test)
                saved = dict(self.env)
                self.block(st.body)
                env_t = self.env
                self.env = dict(saved)
                self.block(st.orelse)
                env_f = self.env
                merged = {}
                for k in set(env_t) | set(env_f):
                    if k in env_t and k in env_f:
                        vt, vf = env_t[k], env_f[k]
                        if isinstance(vt, str) or isinstance(vf, str):
                            merged[k] = ("ite_str", c, vt, vf)
                        else:
                            merged[k] = z3.If(c, vt, vf)
                self.env = merged
            elif isinstance(st, ast.Return):
                self.ret = self.expr(st.value)
                return
            else:
                raise Unsupported(ast.dump(st)[:80])


def encode_terms(days, seconds, micro, mode="bv"):
    src = textwrap.dedent(inspect.getsource(DT.Duration.encode))
    fn = ast.parse(src).body[0]
    ex = SymExec(days, seconds, micro, mode)
    ex.block(fn.body)
    r = ex.ret
    # expected shape: sign + FORMAT % (h, m, s)
    if not (isinstance(r, tuple) and r[0] == "signed" and isinstance(r[2], tuple) and r[2][0] == "fmt"):
        raise Unsupported("return shape")
    sign = r[1]
    if isinstance(sign, tuple) and sign[0] == "ite_str":
        neg = z3.If(sign[1], z3.BoolVal(sign[2] == "-"), z3.BoolVal(sign[3] == "-"))
        if {sign[2], sign[3]} - {"-", ""}:
            raise Unsupported("sign strings")
    elif isinstance(sign, str) and sign in ("", "-"):
        neg = z3.BoolVal(sign == "-")
    else:
        raise Unsupported("sign")
    h, m, s = r[2][1]
    if mode == "int":
        return neg, h, m, s, ex.defs, ex.big, ex
    return neg, h, m, s, ex.defs


def real_fields(td):
    text = DT.Duration.encode(td)
    neg = text.startswith("-")
    body = text.lstrip("-")
    assert body.startswith("PT") and body.endswith("S"), text
    hh, rest = body[2:].split("H")
    mm, ss = rest[:-1].split("M")
    return neg, int(hh), int(mm), int(ss)


def validate():
    """the generated terms, evaluated on concrete inputs, agree with the real function"""
    d, s_, u = z3.BitVecs("days seconds micro", W)
    neg, h, m, s, defs = encode_terms(d, s_, u)
    vectors = [timedelta(0), timedelta(seconds=1), timedelta(seconds=59), timedelta(seconds=60), timedelta(seconds=3599), timedelta(seconds=3600),
               timedelta(hours=1, minutes=1, seconds=1), timedelta(days=1), timedelta(days=1, seconds=86399), timedelta(hours=100, seconds=5),
               timedelta(seconds=-1), timedelta(seconds=-3600), timedelta(days=-1), timedelta(days=-2, seconds=7), timedelta(hours=-25, minutes=-30),
               timedelta(days=10921, seconds=3599), timedelta(days=-10921, seconds=1), timedelta(hours=2 ** 14 - 1, seconds=3599),
               timedelta(hours=5, minutes=30, seconds=15), timedelta(minutes=-90)]
    n = 0
    for td in vectors:
        sub = [(d, bv(td.days)), (s_, bv(td.seconds)), (u, bv(td.microseconds))]
        for var, term, _a, _b in defs:  # definitions in execution order
            sub.append((var, z3.simplify(z3.substitute(term, *sub))))

        def ev(t):
            return z3.simplify(z3.substitute(t, *sub))

        got = (z3.is_true(ev(neg)), ev(h).as_signed_long(), ev(m).as_signed_long(), ev(s).as_signed_long())
        exp = real_fields(td)
        if got != exp:
            raise AssertionError(f"translation disagrees with the real function on {td!r}: {got} vs {exp}")
        n += 1
    return n


def build_queries(dlo, dhi, negative):
    """Inputs: a whole-second timedelta in normal form whose magnitude is T = 86400*D + 3600*sh + g
    with dlo <= D < dhi, sh < 24, g < 3600 (every whole-second duration has exactly one such
    decomposition).  value.days / value.seconds are the normal-form expressions of (D, sh, g).
    Property P: the encoded fields are h = 24*D + sh, m = g // 60, s = g % 60, sign '-' iff negative
    (equivalently h*3600 + m*60 + s == T with 0 <= m, s < 60).
    The query defs |- P is decomposed at the two integer `%=` statements (cut points r0, r1):
        Q_cut : defs |- r0 == g*10**6 and r1 == (g % 60)*10**6      (pure bit-vector arithmetic)
        Q_h   : |- h == 24*D + sh and sign                           (Float64 division, no cut needed)
        Q_ms  : cuts |- m == g // 60 and s == g % 60                 (Float64 division on small operands)
    defs |- cuts and cuts |- P give defs |- P."""
    D, sh, g = z3.BitVecs("D sh g", W)
    rng = [z3.UGE(D, bv(dlo)), z3.ULT(D, bv(dhi)), z3.ULT(sh, bv(24)), z3.ULT(g, bv(3600))]
    r = sh * bv(3600) + g
    if negative:
        rng.append(z3.Or(D != bv(0), r != bv(0)))
        days = z3.If(r == bv(0), -D, -(D + bv(1)))
        secs = z3.If(r == bv(0), bv(0), bv(86400) - r)
    else:
        days = D
        secs = r
    out = {}
    # Q_cut over mathematical integers (the same AST executed in "int" mode): definitions of the two
    # remainders imply the cuts, every operand of % is non-negative with a positive divisor (so that
    # srem == Python %), and every operand of / and % is below 2**53 (so that 64-bit vectors do not
    # wrap and int -> Float64 conversion is exact)
    Di, shi, gi = z3.Ints("D sh g")
    rngi = [Di >= dlo, Di < dhi, shi >= 0, shi < 24, gi >= 0, gi < 3600]
    ri = shi * 3600 + gi
    if negative:
        rngi.append(z3.Or(Di != 0, ri != 0))
        daysi = z3.If(ri == 0, -Di, -(Di + 1))
        secsi = z3.If(ri == 0, z3.IntVal(0), 86400 - ri)
    else:
        daysi, secsi = Di, ri
    negi, hi_, mi, si, defsi, big, exi = encode_terms(daysi, secsi, z3.IntVal(0), "int")
    if not exi.has_fp:
        # pure-integer implementation: the whole property is one query over mathematical integers
        q = z3.Solver()
        q.add(*rngi)
        q.add(*[var == term for var, term, _a, _b in defsi])
        goal = [hi_ == Di * 24 + shi, mi == gi / 60, si == gi % 60, negi == z3.BoolVal(bool(negative))]
        goal += [z3.And(a >= 0, b > 0) for _v, _t, a, b in defsi] + [z3.And(a >= 0, b > 0) for a, b in exi.floordivs]
        q.add(z3.Not(z3.And(*goal)))
        return {"int": q}, None
    if len(defsi) != 2:
        raise Unsupported("expected two integer % cut points")
    q = z3.Solver()
    q.add(*rngi)
    q.add(*[var == term for var, term, _a, _b in defsi])
    goal = [defsi[0][0] == gi * 10 ** 6, defsi[1][0] == (gi % 60) * 10 ** 6]
    goal += [z3.And(a >= 0, b > 0) for _v, _t, a, b in defsi]
    goal += [z3.And(x < 2 ** 53, x > -(2 ** 53)) for x in big]
    q.add(z3.Not(z3.And(*goal)))
    out["cut"] = q
    neg, h, m, s, defs = encode_terms(days, secs, bv(0))
    if len(defs) != 2:
        raise Unsupported("expected two integer % cut points, found %d" % len(defs))
    cuts = [defs[0][0] == g * bv(10 ** 6), defs[1][0] == z3.URem(g, bv(60)) * bv(10 ** 6)]
    q = z3.Solver()
    q.add(*rng)
    q.add(z3.Not(z3.And(h == D * bv(24) + sh, neg == z3.BoolVal(bool(negative)))))
    out["h"] = q
    q = z3.Solver()
    q.add(*rng)
    q.add(*cuts)
    q.add(z3.Not(z3.And(m == z3.UDiv(g, bv(60)), s == z3.URem(g, bv(60)))))
    out["ms"] = q
    return out, (D, sh, g)


def run_cvc5(smt2, timeout_s):
    import cvc5
    slv = cvc5.Solver()
    slv.setOption("tlimit-per", str(int(timeout_s * 1000)))
    slv.setOption("produce-models", "true")
    p = cvc5.InputParser(slv)
    p.setStringInput(cvc5.InputLanguage.SMT_LIB_2_6, smt2, "q")
    sm = p.getSymbolManager()
    res = None
    model = {}
    while True:
        cmd = p.nextCommand()
        if cmd.isNull():
            break
        out = cmd.invoke(slv, sm).strip()
        if "(error" in out:
            return "error", {}
        if out in ("sat", "unsat", "unknown"):
            res = out
    if res == "sat":
        for name in ("days", "seconds"):
            for t in sm.getDeclaredTerms():
                if str(t) == name:
                    v = slv.getValue(t)
                    model[name] = int(v.getBitVectorValue(10))
    return res or "unknown", model


def _smt2(solver, logic):
    text = "(set-logic %s)\n" % logic + solver.to_smt2()
    for a in ("bvudiv_i", "bvurem_i", "bvsdiv_i", "bvsrem_i", "bvsmod_i"):
        text = text.replace(a, a[:-2])
    return text


def _model_vars(res_model_z3, names):
    out = {}
    for d in res_model_z3.decls():
        if d.name() in names:
            v = res_model_z3[d]
            out[d.name()] = v.as_long() if z3.is_int_value(v) else v.as_signed_long()
    return out


def main(argv):
    if argv[0] == "validate":
        print("RESULT " + json.dumps({"verdict": "holds", "detail": f"translator validated on {validate()} vectors", "queries": 0}))
        return
    dlo, dhi, negative, cross, timeout_s = int(argv[1]), int(argv[2]), int(argv[3]), int(argv[4]), float(argv[5])
    t0 = time.time()
    try:
        nvec = validate()
        queries, _vars = build_queries(dlo, dhi, negative)
    except Unsupported as e:
        print("RESULT " + json.dumps({"verdict": "inconclusive", "detail": "unsupported construct in Duration.encode: " + str(e)}))
        return
    except AssertionError as e:
        print("RESULT " + json.dumps({"verdict": "inconclusive", "detail": str(e)}))
        return
    answers = {}
    cex = None
    for name in (("int",) if "int" in queries else ("cut", "ms", "h")):
        q = queries[name]
        logic = "ALL" if name in ("cut", "int") else "QF_BVFP"
        res, _m = run_cvc5(_smt2(q, logic), timeout_s)
        answers[name + ":cvc5"] = res
        use_z3 = name in ("cut", "ms", "int") or cross or res != "unsat"
        if use_z3:
            q.set("timeout", int(timeout_s * 1000))
            r = str(q.check())
            answers[name + ":z3"] = r
            if r == "sat" and cex is None:
                cex = _model_vars(q.model(), ("D", "sh", "g"))
        if cex is not None:
            break
    vals = set(answers.values())
    kw = None
    if cex is not None:
        D, sh, g = cex.get("D", 0), cex.get("sh", 0), cex.get("g", 0)
        total = 86400 * D + 3600 * sh + g
        kw = {"total_seconds": -total if negative else total}
        verdict, detail = "counterexample", f"solver model D={D} sh={sh} g={g} ({answers})"
    elif "sat" in vals:
        verdict, detail = "inconclusive", f"sat without a z3 model to replay ({answers})"
    elif vals == {"unsat"}:
        verdict, detail = "holds", f"unsat on every query ({answers}); translator validated on {nvec} vectors"
    else:
        verdict, detail = "inconclusive", f"{answers}"
    print("RESULT " + json.dumps({"verdict": verdict, "detail": detail, "kwargs": kw, "queries": len(answers), "paths": len(answers),
                                  "seconds": round(time.time() - t0, 1)}))


if __name__ == "__main__":
    main(sys.argv[1:])
