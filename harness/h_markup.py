"""C09 A-level obligations (regex addressing and removal - contents matter): the real
Paragraph.set_span/set_link(regex=...), set_bookmark/set_reference_mark(before/after=...),
remove_spans/remove_links (strip_tags/_strip_tags), Element.delete(keep_tail) on the lxml model.

Tree:  <p>t0<text:a>t1<text:span>t2</text:span>b</text:a>ab</p>  with symbolic t0, t1, t2 (short
strings over {a, b}); the pattern comes from a concrete family (per process).  Oracle: the
paragraph's plain-text projection is identical before/after; an inserted span holds exactly a
match of the pattern; stripping keeps every character; deleting an element removes its content
only and keeps its tail."""
import os
import re

import lxml.etree as ET
import symsupport as S
from odfdo.element import Element
from odfdo.paragraph import Paragraph, Span
from vlib.hk import done

PATTERNS = ["a", "ab", "b+", "[ab]b"]
PAT = PATTERNS[int(os.environ.get("VERIF_PAT", "0"))]
X = "{http://www.w3.org/1999/xlink}"


def mk(t0, t1, t2):
    p = Element.make_etree_element("text:p")
    p.text = t0
    a = Element.make_etree_element("text:a")
    a.set(X + "href", "u")
    a.text = t1
    sp = Element.make_etree_element("text:span")
    sp.text = t2
    sp.tail = "b"
    a.append(sp)
    a.tail = "ab"
    p.append(a)
    return Element.from_tag(p), p, a, sp


def runs(t0, t1, t2):
    return [t0, t1, t2, "b", "ab"]


def span_regex(t0: str, t1: str, t2: str) -> bool:
    """
    pre: len(t0) <= 2 and len(t1) <= 1 and len(t2) <= 2 and all(c in "ab" for c in t0 + t1 + t2)
    post: _
    """
    # set_span(style, regex): text unchanged; every new span holds a full match; one new span per
    # non-overlapping match inside each text run
    para, p, a, sp = mk(t0, t1, t2)
    before = S.plain_text(p)
    para.set_span("NEW", regex=PAT)
    ok = S.plain_text(p) == before
    new = [n for n in p.iterdescendants() if n.tag == S.TXT + "span" and n.attrib.get(S.TXT + "style-name") == "NEW"]
    exp = 0
    for r in runs(t0, t1, t2):
        exp += len(re.findall(PAT, r))
    ok = ok and len(new) == exp
    for n in new:
        ok = ok and re.fullmatch(PAT, n.text or "") is not None and len(n._children) == 0
    return done(ok)


def bookmark_regex(t0: str, t1: str, t2: str, use_before: bool) -> bool:
    """
    pre: len(t0) <= 2 and len(t1) <= 1 and len(t2) <= 2 and all(c in "ab" for c in t0 + t1 + t2)
    post: _
    """
    # set_bookmark(before=/after= regex, position=0): text unchanged; the mark sits right before/after
    # the first match (first text run that has one); no match -> ValueError and the tree untouched
    para, p, a, sp = mk(t0, t1, t2)
    before = S.plain_text(p)
    snap = S.canon(p)
    try:
        if use_before:
            para.set_bookmark("bm", before=PAT)
        else:
            para.set_bookmark("bm", after=PAT)
    except ValueError:
        found = False
        for r in runs(t0, t1, t2):
            if re.search(PAT, r) is not None:
                found = True
        return done(not found and S.canon(p) == snap)
    if S.plain_text(p) != before:
        return done(False)
    # expected offset of the mark in the flat text
    acc = 0
    exp = None
    for r in runs(t0, t1, t2):
        m = re.search(PAT, r)
        if m is not None:
            exp = acc + (m.start() if use_before else m.end())
            break
        acc += len(r)
    marks = [n for n in p.iterdescendants() if n.tag == S.TXT + "bookmark"]
    if len(marks) != 1 or exp is None:
        return done(False)
    return done(_chars_before(p, marks[0]) == exp)


POS = int(os.environ.get("VERIF_POS", "0"))  # which match the mark is put at (concrete per process; -1 = the last one)


def bookmark_regex_pos(t0: str, t1: str, t2: str, use_before: bool) -> bool:
    """
    pre: len(t0) <= 2 and len(t1) <= 1 and len(t2) <= 2 and all(c in "ab" for c in t0 + t1 + t2)
    post: _
    """
    # set_bookmark(before=/after= regex, position=POS): the matches are counted over the text runs in
    # document order; POS designates one of them, -1 the last one of the last run that has one; the mark
    # sits right before/after exactly that match; no such match -> ValueError and the tree untouched
    para, p, a, sp = mk(t0, t1, t2)
    before = S.plain_text(p)
    snap = S.canon(p)
    spots = []
    acc = 0
    for r in runs(t0, t1, t2):
        for m in re.finditer(PAT, r):
            spots.append(acc + (m.start() if use_before else m.end()))
        acc += len(r)
    if POS < 0:
        exp = spots[-1] if spots else None
    else:
        exp = spots[POS] if POS < len(spots) else None
    try:
        if use_before:
            para.set_bookmark("bm", before=PAT, position=POS)
        else:
            para.set_bookmark("bm", after=PAT, position=POS)
    except ValueError:
        return done(exp is None and S.canon(p) == snap)
    if exp is None or S.plain_text(p) != before:
        return done(False)
    marks = [n for n in p.iterdescendants() if n.tag == S.TXT + "bookmark"]
    return done(len(marks) == 1 and _chars_before(p, marks[0]) == exp)


def _chars_before(root, target):
    """number of characters of the flat text that precede `target` in document order"""
    state = {"n": 0, "found": False}

    def walk(n):
        if n is target:
            state["found"] = True
            return
        state["n"] += len(n.text or "")
        for c in n._children:
            walk(c)
            if state["found"]:
                return
            state["n"] += len(c.tail or "")

    walk(root)
    return state["n"] if state["found"] else None


def strip_spans(t0: str, t1: str, t2: str) -> bool:
    """
    pre: len(t0) <= 2 and len(t1) <= 2 and len(t2) <= 2 and all(c in "ab" for c in t0 + t1 + t2)
    post: _
    """
    # remove_spans / remove_links send back a copy without the markup: every character is kept
    # (tails included, also of an inline element that contains the stripped one)
    para, p, a, sp = mk(t0, t1, t2)
    before = S.plain_text(p)
    r1 = para.remove_spans()
    n1 = r1._Element__element
    ok = S.plain_text(n1) == before and all(n.tag != S.TXT + "span" for n in n1.iterdescendants())
    # the markup that was not asked to go stays
    ok = ok and any(n.tag == S.TXT + "a" for n in n1.iterdescendants())
    # (the original may be modified in place below the first level - documented as "a copy", observed
    # on real lxml too; the property is about the characters, so a fresh tree is used for the second call)
    para2, p2, a2, sp2 = mk(t0, t1, t2)
    r2 = para2.remove_links()
    n2 = r2._Element__element
    ok = ok and S.plain_text(n2) == before and all(n.tag != S.TXT + "a" for n in n2.iterdescendants())
    if t2:
        ok = ok and any(n.tag == S.TXT + "span" for n in n2.iterdescendants())
    return done(ok)


def delete_keep_tail(t0: str, t1: str, tl: str, keep: bool, inner: bool) -> bool:
    """
    pre: len(t0) <= 2 and len(t1) <= 2 and len(tl) <= 2 and all(c in "a " for c in t0 + t1 + tl)
    post: _
    """
    # deleting an inline element removes its own content only; with keep_tail (the default) the text
    # that follows it stays - every character of it, raw runs of spaces included (text read from a file)
    para, p, a, sp = mk(t0, t1, "a")
    if inner:
        sp.tail = tl
        Element.from_tag(a).delete(Element.from_tag(sp), keep_tail=keep)
        exp = t0 + t1 + (tl if keep else "") + "ab"
    else:
        a.tail = tl
        para.delete(Element.from_tag(a), keep_tail=keep)
        exp = t0 + (tl if keep else "")
    return done(S.plain_text(p) == exp)
