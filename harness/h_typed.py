"""C06 A-level obligations: typed values through the real dispatch code (element_typed.py
set_value_and_type / _get_typed_value, cell.py Cell.__init__/value/get_value/set_value and the typed
setters, meta.py set_user_defined_metadata / _get_meta_value_full) on the lxml model.

Symbolic: `str` values, and - for the temporal types - THE ENCODED ATTRIBUTE STRING: the codec entry
points (Date/DateTime/Duration .encode/.decode) are replaced by recording stubs that return a fresh
symbolic string constrained only by the codec's lexical contract (a dateTime contains 'T', a date
does not) and decode to a token (codec name, string).  A value of each Python type (one
representative per type, lattice corners bool<int and datetime<date included) must come back through
the decoder of its own type with its own string; any dependence of the dispatch on the string's
content ("T" in value, lower(), stripping) is explored by the solver.  Codec inverse-ness itself is
C18's subject; int/float/Decimal <-> text is CPython's C code (outside)."""
import os
from copy import deepcopy
from datetime import date, datetime, timedelta
from decimal import Decimal

import symsupport as S
import odfdo.cell as C
import odfdo.element_typed as ET_
import odfdo.meta as M
from odfdo.cell import Cell
from odfdo.element import Element
from odfdo.meta import Meta
from vlib.hk import done

ENC = {"s": ""}
LOG = []


class _Stub:
    name = ""

    @classmethod
    def encode(cls, v):
        LOG.append((cls.name, "encode"))
        return ENC["s"]

    @classmethod
    def decode(cls, s):
        return (cls.name, s)


class SDate(_Stub):
    name = "Date"


class SDateTime(_Stub):
    name = "DateTime"


class SDuration(_Stub):
    name = "Duration"


for _m in (C, ET_, M):
    _m.Date = SDate
    _m.DateTime = SDateTime
    _m.Duration = SDuration

KIND = os.environ.get("VERIF_KIND", "date")
D = int(os.environ.get("VERIF_DEPTH", "0"))  # thorough tier: deeper bounds (per process)
NT = 1 + D   # length of each half of the encoded temporal string
NS = 4 + D   # length of a str value
VALUES = {
    "date": (date(2024, 1, 31), "Date"),
    "datetime": (datetime(2024, 1, 31, 10, 5, 6), "DateTime"),
    "timedelta": (timedelta(hours=1, seconds=5), "Duration"),
}


def _mk_enc(kind, a, b):
    """the encoded string handed out by the stub codec, inside the codec's lexical contract:
    a dateTime contains 'T' (a + 'T' + b), a date does not (pre-condition), a duration is arbitrary;
    none of them is the word true or false (pre-condition: no date or duration is written that way,
    and the generic attribute getter turns exactly these two words into a bool)"""
    if kind == "datetime":
        return a + "T" + b
    return a + b


def _fresh(el):
    return Element.from_tag(deepcopy(el._Element__element))


def cell_temporal(a: str, b: str) -> bool:
    """
    pre: len(a) <= NT and len(b) <= NT and (KIND != "date" or ("T" not in a and "T" not in b)) and a + b != "true" and a + b != "false"
    post: _
    """
    enc = _mk_enc(KIND, a, b)
    # Cell(v) for a date / datetime / timedelta: encoded by the codec of its own type, stored in the
    # attribute of its value type, decoded by the decoder of its own type from that very string -
    # directly, through get_value(), and on a fresh wrapper of a copy of the node
    v, codec = VALUES[KIND]
    del LOG[:]
    ENC["s"] = enc
    c = Cell(v, text="shown")  # (display text given: the white-space pipeline on the same symbolic string trips a CrossHair internal check)
    want = (codec, enc)
    encoders = [n for n, _ in LOG]
    ok = c.value == want and c.get_value() == want and _fresh(c).value == want
    ok = ok and all(n == codec for n in encoders) and len(encoders) >= 1
    c2 = Cell()
    c2.value = v
    ok = ok and c2.value == want
    c3 = Cell()
    c3.set_value(v, text="shown")
    ok = ok and c3.get_value() == want
    return done(ok)


def meta_temporal(a: str, b: str) -> bool:
    """
    pre: len(a) <= NT and len(b) <= NT and (KIND != "date" or ("T" not in a and "T" not in b)) and a + b != "true" and a + b != "false"
    post: _
    """
    enc = _mk_enc(KIND, a, b)
    # user-defined metadata: same requirement through Meta.set_user_defined_metadata / _get_meta_value_full
    v, codec = VALUES[KIND]
    del LOG[:]
    ENC["s"] = enc
    m = Meta.__new__(Meta)
    body = Element.from_tag("office:meta")
    m.get_elements = lambda q: body.get_elements("meta:user-defined")
    m.get_meta_body = lambda: body
    m.set_user_defined_metadata("k", v)
    el = body.get_elements("meta:user-defined")[0]
    got = Meta._get_meta_value_full(el)
    return done(got[0] == (codec, enc) and [n for n, _ in LOG] == [codec])


def cell_string(s: str) -> bool:
    """
    pre: len(s) <= NS and all(32 <= ord(c) < 55296 or c == chr(10) for c in s)
    post: _
    """
    # str values (any XML-legal printable characters, line feeds included) come back equal, directly,
    # through get_value(get_type=True) and on a fresh wrapper
    c = Cell(s)
    ok = c.value == s and c.get_value(get_type=True) == (s, "string") and _fresh(c).value == s and c.type == "string"
    c2 = Cell()
    c2.value = s
    return done(ok and c2.value == s)


def cell_simple(b: bool) -> bool:
    """
    post: _
    """
    # bool before int; None clears; concrete numbers (int <-> text and Decimal are C code, and
    # CrossHair's Decimal model fails on symbolic strings): the lattice corners only
    cb = Cell(b)
    ok = cb.value is b and cb.type == "boolean" and _fresh(cb).value is b
    for n in (0, -3, 12, 10 ** 20, 10 ** 30, -(2 ** 100)):
        cn = Cell(n)
        ok = ok and cn.value == n and isinstance(cn.value, int) and not isinstance(cn.value, bool) and cn.type == "float"
    cd = Cell(Decimal("1.50"))
    ok = ok and cd.value == Decimal("1.50")
    cf = Cell(2.5)
    ok = ok and cf.value == Decimal("2.5")
    c0 = Cell(None)
    ok = ok and c0.value is None and c0.type is None
    cb.value = None
    return done(ok and cb.value is None)


def meta_overwrite(first: int, a: str, b: str) -> bool:
    """
    pre: 0 <= first <= 3 and len(a) <= NT and len(b) <= NT and (KIND != "date" or ("T" not in a and "T" not in b)) and a + b != "true" and a + b != "false"
    post: _
    """
    # overwriting an existing user-defined entry with a value of another type: the entry then
    # reads back as the NEW value (its value-type follows), and no second entry appears
    v, codec = VALUES[KIND]
    enc = _mk_enc(KIND, a, b)
    m = Meta.__new__(Meta)
    body = Element.from_tag("office:meta")
    m.get_elements = lambda q: body.get_elements("meta:user-defined")
    m.get_meta_body = lambda: body
    ENC["s"] = "P"
    m.set_user_defined_metadata("k", (True, 7, "txt", timedelta(seconds=1))[first])
    ENC["s"] = enc
    m.set_user_defined_metadata("k", v)
    els = body.get_elements("meta:user-defined")
    got = Meta._get_meta_value_full(els[0])
    return done(len(els) == 1 and got[0] == (codec, enc) and got[1] == ("time" if KIND == "timedelta" else "date"))


# ---- the other carriers of a typed value: variables, user fields, user-defined fields ----------
import odfdo.variable as V_  # noqa: E402

CARRIERS = {"varset": V_.VarSet, "varget": V_.VarGet, "userfielddecl": V_.UserFieldDecl, "userfieldget": V_.UserFieldGet,
            "userdefined": V_.UserDefined}
LOOKUP = {"varset": "get_variable_set_value", "userfielddecl": "get_user_field_value", "userdefined": "get_user_defined_value"}
CARRIER = os.environ.get("VERIF_CARRIER", "varset")


def _in_body(e):
    body = Element.from_tag("office:text")
    body.append(e)
    return body


def carrier_temporal(a: str, b: str) -> bool:
    """
    pre: len(a) <= NT and len(b) <= NT and (KIND != "date" or ("T" not in a and "T" not in b)) and a + b != "true" and a + b != "false"
    post: _
    """
    # a date / datetime / timedelta stored in a variable, user field or user-defined field comes back
    # through the decoder of its own type with its own string: from the element, from a fresh wrapper
    # of a copy, through the body-level lookup by name, and after set_value() over a value of another type
    cls = CARRIERS[CARRIER]
    v, codec = VALUES[KIND]
    enc = _mk_enc(KIND, a, b)
    ENC["s"] = enc
    want = (codec, enc)
    e = cls("nm", v)
    ok = e.get_value() == want and _fresh(e).get_value() == want and e.name == "nm"
    ok = ok and e.get_value(get_type=True) == (want, "time" if KIND == "timedelta" else "date")
    if CARRIER in LOOKUP:
        ok = ok and getattr(_in_body(e), LOOKUP[CARRIER])("nm") == want
    if hasattr(cls, "set_value") and "set_value" in cls.__dict__:
        e2 = cls("nm", "txt")
        e2.set_value(v)
        ok = ok and e2.get_value() == want and e2.name == "nm"
        e.set_value("txt")
        ok = ok and e.get_value(get_type=True) == ("txt", "string") and e.name == "nm"
    return done(ok)


def carrier_string(s: str) -> bool:
    """
    pre: len(s) <= NS and all(32 <= ord(c) < 55296 for c in s)
    post: _
    """
    # str values (the words true and false included) come back as the same string
    cls = CARRIERS[CARRIER]
    e = cls("nm", s)
    ok = e.get_value() == s and e.get_value(get_type=True) == (s, "string") and _fresh(e).get_value() == s and e.name == "nm"
    if CARRIER in LOOKUP:
        ok = ok and getattr(_in_body(e), LOOKUP[CARRIER])("nm") == s
    if "set_value" in cls.__dict__:
        e2 = cls("nm", True)
        e2.set_value(s)
        ok = ok and e2.get_value() == s and e2.name == "nm"
    return done(ok)


def carrier_simple(b: bool) -> bool:
    """
    post: _
    """
    cls = CARRIERS[CARRIER]
    e = cls("nm", b)
    ok = e.get_value() is b and _fresh(e).get_value(get_type=True) == (b, "boolean")
    for n in (0, -3, 12, 10 ** 20, 10 ** 30, -(2 ** 100)):
        en = cls("nm", n)
        g = en.get_value()
        ok = ok and g == n and isinstance(g, int) and not isinstance(g, bool)
    ok = ok and cls("nm", Decimal("1.50")).get_value() == Decimal("1.50") and cls("nm", None).get_value() is None
    if "set_value" in cls.__dict__:
        e.set_value(5)
        ok = ok and e.get_value() == 5 and e.name == "nm"
        e.set_value(None)
        ok = ok and e.get_value() is None and e.name == "nm"
    return done(ok)
