"""KT obligations on the Table-level getters (C08 addressed / expanded / detached copies; C15 reads
never change the table; C19 all addressing forms agree; C17 whole-table transformations).

Same typed-element layer as h_ktab.  Getters that expand repetitions loop over every position, so
the template's repeats are small here (each in 1..2, symbolic) while single-position getters keep
unbounded integers.  A returned object is "detached" when writing to its node record (payload,
repeat, children) changes neither the table's node tree nor any probe read.
"""
import os

from odfdo.utils.coordinates import digit_to_alpha

from h_ktab import mktab, ref
from ktable import IntCell, KRow, wrap, x_value, x_total, snapshot
from vlib.hk import done
import os

D = int(os.environ.get("VERIF_DEPTH", "0"))  # thorough tier: deeper bounds (per process)
RS = 2 + D   # repeats of the small templates
PS = 4 + 2 * D   # probe / position bound of the small templates


def _pure(t, snap, tmap, cmap):
    return snapshot(t._n) == snap and t._tmap == tmap and t._cmap == cmap


def _poke(node):
    """mutate a returned object as a caller could: new value, new repeat, a child appended"""
    node.payload = 99
    node.rep = 7
    node.kids.append(IntCell(98)._n)


def kget_cell(r0: int, r1: int, c0: int, c1: int, x: int, y: int, clone: bool, keep: bool, qx: int, qy: int) -> bool:
    """
    pre: 1 <= r0 and 1 <= r1 and 1 <= c0 and 1 <= c1 and 0 <= x and 0 <= y and 0 <= qx and 0 <= qy
    pre: x < c0 + c1 or y >= r0 + r1
    post: _
    """
    # get_cell: stamped with the requested coordinates, right value, no repeat count unless asked to
    # keep it, an empty cell outside the populated rows without growing the table; the documented copy
    # (clone=True) is detached.
    t = mktab(r0, r1, c0, c1)
    snap = snapshot(t._n)
    tmap = t._tmap[:]
    cmap = t._cmap[:]
    cell = t.get_cell((x, y), clone=clone, keep_repeated=keep)
    ok = cell.x == x and cell.y == y and cell.get_value() == ref(r0, r1, c0, c1, x, y)
    if clone and not keep:
        ok = ok and cell.repeated is None
    if clone or y >= r0 + r1:
        pure = _pure(t, snap, tmap, cmap)
        _poke(cell._n)
        detached = snapshot(t._n) == snap and t.get_value((qx, qy)) == ref(r0, r1, c0, c1, qx, qy)
        return done(ok and pure and detached and t.width == c0 + c1 and t.height == r0 + r1)
    return done(ok)


def kget_cell_beyond_width(r0: int, r1: int, c0: int, c1: int, x: int, y: int, qx: int, qy: int) -> bool:
    """
    pre: 1 <= r0 and 1 <= r1 and 1 <= c0 and 1 <= c1 and c0 + c1 <= x and 0 <= y < r0 + r1 and 0 <= qx and 0 <= qy
    post: _
    """
    # reading right of the populated area returns an empty cell instead of failing or growing the table
    t = mktab(r0, r1, c0, c1)
    snap = snapshot(t._n)
    cell = t.get_cell((x, y))
    ok = cell is not None and cell.x == x and cell.y == y and cell.get_value() is None
    _poke(cell._n)
    return done(ok and snapshot(t._n) == snap and t.width == c0 + c1 and t.get_value((qx, qy)) == ref(r0, r1, c0, c1, qx, qy))


def kget_row(r0: int, r1: int, c0: int, c1: int, y: int, clone: bool, qx: int, qy: int) -> bool:
    """
    pre: 1 <= r0 and 1 <= r1 and 1 <= c0 and 1 <= c1 and 0 <= y and 0 <= qx and 0 <= qy
    post: _
    """
    # get_row: stamped with y, holds the row's cells (read pointwise at qx), an empty row beyond the
    # height (create=True) without growing the table; the documented copy is detached.
    t = mktab(r0, r1, c0, c1)
    snap = snapshot(t._n)
    tmap = t._tmap[:]
    cmap = t._cmap[:]
    row = t.get_row(y, clone=clone)
    ok = row.y == y and row.get_value(qx) == ref(r0, r1, c0, c1, qx, y)
    ok = ok and row.width == (c0 + c1 if y < r0 + r1 else 0)
    pure = _pure(t, snap, tmap, cmap)
    if clone or y >= r0 + r1:
        row._n.rep = 5
        row._n.kids.append(IntCell(98)._n)
        if row._n.kids[0].kind == "cell":
            row._n.kids[0].payload = 97
        detached = snapshot(t._n) == snap and t.get_value((qx, qy)) == ref(r0, r1, c0, c1, qx, qy) and t.height == r0 + r1
        return done(ok and pure and detached)
    return done(ok and pure)


def kget_value_forms(r0: int, r1: int, c0: int, c1: int, x: int, y: int) -> bool:
    """
    pre: 1 <= r0 and 1 <= r1 and 1 <= c0 and 1 <= c1 and 0 <= x <= 25 and 0 <= y <= 98
    post: _
    """
    # C19: the string form, the tuple form, the 4-tuple (area -> upper-left) form and, in range, the
    # negative form address the same cell, for get_value and get_cell
    t = mktab(r0, r1, c0, c1)
    s = digit_to_alpha(x) + str(y + 1)
    exp = ref(r0, r1, c0, c1, x, y)
    ok = t.get_value(s) == exp and t.get_value((x, y)) == exp and t.get_value((x, y, x + 1, y + 1)) == exp
    c = t.get_cell(s)
    ok = ok and c.x == x and c.y == y and c.get_value() == exp
    if x < c0 + c1 and y < r0 + r1:
        ok = ok and t.get_value((x - (c0 + c1), y - (r0 + r1))) == exp
    return done(ok)


# ----------------------------------------------------------------- expanding getters (small repeats)

def _small(r0, r1, c0, c1):
    return 1 <= r0 <= 2 and 1 <= r1 <= 2 and 1 <= c0 <= 2 and 1 <= c1 <= 2


def _rows_small(r0, r1, c0, c1, start, end, k, qx, only_live):
    t = mktab(r0, r1, c0, c1)
    h = r0 + r1
    snap = snapshot(t._n)
    tmap = t._tmap[:]
    cmap = t._cmap[:]
    rows = list(t.traverse(start, end))
    exp_n = max(0, min(end, h - 1) - start + 1)
    ok = len(rows) == exp_n and len(t.get_rows((start, end))) == exp_n and len(t.rows) == h
    pure = _pure(t, snap, tmap, cmap)
    detached = True
    if k < len(rows):
        r = rows[k]
        y = start + k
        ok = ok and r.y == y and r.repeated is None and r.get_value(qx) == ref(r0, r1, c0, c1, qx, y)
        stored_repeat = r0 if y < r0 else r1
        if (stored_repeat == 1) == only_live:
            r._n.kids.append(IntCell(98)._n)
            if r._n.kids[0].kind == "cell":
                r._n.kids[0].payload = 97
            detached = snapshot(t._n) == snap
    return done(ok and pure and detached)


def kget_rows_small(r0: int, r1: int, c0: int, c1: int, start: int, end: int, k: int, qx: int) -> bool:
    """
    pre: 1 <= r0 <= RS and 1 <= r1 <= RS and 1 <= c0 <= RS and 1 <= c1 <= RS
    pre: 0 <= start <= PS and 0 <= end <= PS + 1 and 0 <= k <= PS and 0 <= qx <= PS
    post: _
    """
    # traverse(start, end) / get_rows((start, end)) / rows: one row per logical position in
    # [start, min(end, height-1)], stamped with y, WITHOUT repeat count; the read changes nothing;
    # rows coming from a repeated run are detached copies.  (Rows stored un-repeated are yielded
    # live: known finding C08-traverse-live-row, checked by the companion below.)
    return _rows_small(r0, r1, c0, c1, start, end, k, qx, False)


def kget_rows_small_live(r0: int, r1: int, c0: int, c1: int, start: int, end: int, k: int, qx: int) -> bool:
    """
    pre: 1 <= r0 <= RS and 1 <= r1 <= RS and 1 <= c0 <= RS and 1 <= c1 <= RS
    pre: 0 <= start <= PS and 0 <= end <= PS + 1 and 0 <= k <= PS and 0 <= qx <= PS
    post: _
    """
    # companion restricted to the known-finding region: the k-th yielded row is stored un-repeated
    # ("Copies are returned, use set_row() to push them back" - but the live row is yielded)
    return _rows_small(r0, r1, c0, c1, start, end, k, qx, True)


def _cells_small(r0, r1, c0, c1, x, y, z, tt, i, j):
    # get_cells((x, y, z, t)) / get_values(...): the area is bounded on both sides; element [j][i] is the
    # cell of position (x+i, y+j), stamped, without repeat count, detached.  get_values agrees.
    t = mktab(r0, r1, c0, c1)
    w = c0 + c1
    h = r0 + r1
    snap = snapshot(t._n)
    tmap = t._tmap[:]
    cmap = t._cmap[:]
    cells = t.get_cells((x, y, z, tt))
    vals = t.get_values((x, y, z, tt))
    nrows = max(0, min(tt, h - 1) - y + 1)
    ncols = max(0, min(z, w - 1) - x + 1)
    ok = len(cells) == nrows and len(vals) == nrows
    pure = _pure(t, snap, tmap, cmap)
    detached = True
    if j < nrows:
        ok = ok and len(cells[j]) == ncols and len(vals[j]) == ncols
        if i < ncols:
            c = cells[j][i]
            ok = ok and c.x == x + i and c.y == y + j and c.repeated is None and c.get_value() == ref(r0, r1, c0, c1, x + i, y + j)
            ok = ok and vals[j][i] == ref(r0, r1, c0, c1, x + i, y + j)
            _poke(c._n)
            detached = snapshot(t._n) == snap
    return done(ok and pure and detached)


def kget_cells_small_cols(c0: int, c1: int, x: int, z: int, tt: int, i: int, j: int) -> bool:
    """
    pre: 1 <= c0 <= RS and 1 <= c1 <= RS
    pre: 0 <= x <= PS - 1 and x <= z <= PS and 0 <= tt <= 2 and 0 <= i <= PS - 1 and 0 <= j <= 1
    post: _
    """
    return _cells_small(1, 1, c0, c1, x, 0, z, tt, i, j)


def kget_cells_small_rows(r0: int, r1: int, y: int, z: int, tt: int, i: int, j: int) -> bool:
    """
    pre: 1 <= r0 <= RS and 1 <= r1 <= RS
    pre: 0 <= y <= PS - 1 and y <= tt <= PS and 0 <= z <= 2 and 0 <= i <= 1 and 0 <= j <= PS - 1
    post: _
    """
    return _cells_small(r0, r1, 1, 1, 0, y, z, tt, i, j)


def kget_column_small(r0: int, r1: int, c0: int, c1: int, x: int, k: int) -> bool:
    """
    pre: 1 <= r0 <= RS and 1 <= r1 <= RS and 1 <= c0 <= RS and 1 <= c1 <= RS
    pre: 0 <= x <= PS and 0 <= k <= PS
    post: _
    """
    # get_column_cells(x) / get_column_values(x): one cell per row, stamped (x, y), detached copies;
    # get_column(x) / columns / get_columns: stamped with x, no repeat count, detached.
    t = mktab(r0, r1, c0, c1)
    w = c0 + c1
    h = r0 + r1
    snap = snapshot(t._n)
    tmap = t._tmap[:]
    cmap = t._cmap[:]
    cells = t.get_column_cells(x)
    vals = t.get_column_values(x)
    ok = len(cells) == h and len(vals) == h
    cols = t.columns
    ok = ok and len(cols) == w
    col = t.get_column(x)
    ok = ok and col.x == x
    pure = _pure(t, snap, tmap, cmap)
    detached = True
    if k < h:
        c = cells[k]
        ok = ok and c is not None and c.x == x and c.y == k and c.get_value() == ref(r0, r1, c0, c1, x, k) and vals[k] == ref(r0, r1, c0, c1, x, k)
        _poke(c._n)
        detached = snapshot(t._n) == snap
    if k < w:
        ok = ok and cols[k].x == k and cols[k].repeated is None
        cols[k]._n.rep = 9
        col._n.rep = 9
        detached = detached and snapshot(t._n) == snap
    return done(ok and pure and detached)


def kget_values_small(r0: int, r1: int, c0: int, c1: int, i: int, j: int) -> bool:
    """
    pre: 1 <= r0 <= RS and 1 <= r1 <= RS and 1 <= c0 <= RS and 1 <= c1 <= RS
    pre: 0 <= i <= PS and 0 <= j <= PS
    post: _
    """
    # full-matrix reads: get_values(), iter_values(), get_values(flat=True), cells: the expanded grid
    t = mktab(r0, r1, c0, c1)
    w = c0 + c1
    h = r0 + r1
    snap = snapshot(t._n)
    tmap = t._tmap[:]
    cmap = t._cmap[:]
    m = t.get_values()
    it = list(t.iter_values())
    flat = t.get_values(flat=True)
    cc = t.cells
    ok = len(m) == h and len(it) == h and len(flat) == w * h and len(cc) == h and t.size == (w, h)
    if j < h and i < w:
        e = ref(r0, r1, c0, c1, i, j)
        ok = ok and len(m[j]) == w and m[j][i] == e and it[j][i] == e and flat[j * w + i] == e
        ok = ok and cc[j][i].x == i and cc[j][i].y == j and cc[j][i].get_value() == e
    return done(ok and _pure(t, snap, tmap, cmap))


# ----------------------------------------------------------------- whole-table transformations (C17)

def ktrans_twice_small(r0: int, r1: int, c0: int, c1: int, qx: int, qy: int) -> bool:
    """
    pre: 1 <= r0 <= RS and 1 <= r1 <= RS and 1 <= c0 <= RS and 1 <= c1 <= RS
    pre: 0 <= qx <= PS and 0 <= qy <= PS
    post: _
    """
    # transpose: value (qx, qy) moves to (qy, qx), sizes swap; transposing twice gives the original back
    t = mktab(r0, r1, c0, c1)
    t.transpose()
    ok = t.get_value((qy, qx)) == ref(r0, r1, c0, c1, qx, qy) and t.size == (r0 + r1, c0 + c1)
    t.transpose()
    ok = ok and t.get_value((qx, qy)) == ref(r0, r1, c0, c1, qx, qy) and t.size == (c0 + c1, r0 + r1)
    ok = ok and x_value(t._n, qx, qy) == ref(r0, r1, c0, c1, qx, qy)
    return done(ok)


def mk_trailing(r0, r1, c0, c1, e_rows, e_cols, styled):
    """template + e_cols trailing empty cells (one run) on every row + e_rows trailing empty rows"""
    from ktable import Node, KTable
    tn = Node("table")
    col = Node("column", None, c0 + c1 + e_cols)
    col.parent = tn
    tn.kids.append(col)

    def row(a, b, rep, empty=False):
        n = Node("row", None, rep)
        runs = [(None, c0 + c1 + e_cols, False)] if empty else [(a, c0, False), (b, c1, False)] + ([(None, e_cols, styled)] if e_cols else [])
        for v, r, st in runs:
            c = Node("cell", v, r, st)
            c.parent = n
            n.kids.append(c)
        n.parent = tn
        tn.kids.append(n)

    row(1, 2, r0)
    row(3, 4, r1)
    if e_rows:
        row(None, None, e_rows, True)
    return KTable(_node=tn)


def krstrip(r0: int, r1: int, c0: int, c1: int, e_rows: int, e_cols: int, styled: bool, aggressive: bool, qx: int, qy: int) -> bool:
    """
    pre: 1 <= r0 <= RS + 1 and 1 <= r1 <= RS + 1 and 1 <= c0 and 1 <= c1 and 0 <= e_rows <= RS + 1 and 0 <= e_cols and 0 <= qx and 0 <= qy
    post: _
    """
    # rstrip removes only trailing empty rows and cells (styled empties count as empty only when
    # aggressive), keeps every value at its coordinates, and is idempotent
    t = mk_trailing(r0, r1, c0, c1, e_rows, e_cols, styled)
    t.rstrip(aggressive=aggressive)
    keep_cols = e_cols if (styled and not aggressive and e_cols > 0) else 0
    ew = c0 + c1 + keep_cols
    eh = r0 + r1
    ok = t.get_value((qx, qy)) == ref(r0, r1, c0, c1, qx, qy) and t.height == eh and t.width == ew
    ok = ok and x_total(t._n, "row") == eh and x_value(t._n, qx, qy) == ref(r0, r1, c0, c1, qx, qy)
    f = wrap(t._n)  # C02: the live position maps are those of the XML read afresh
    ok = ok and t._tmap == f._tmap and t._cmap == f._cmap
    snap = snapshot(t._n)
    t.rstrip(aggressive=aggressive)
    return done(ok and snapshot(t._n) == snap and t.height == eh and t.width == ew)


def _norm(v, n):
    return v + n if v < 0 else v


def kget_area_negative_rows(r0: int, r1: int, y: int, tt: int, z: int, j: int) -> bool:
    """
    pre: 1 <= r0 <= RS and 1 <= r1 <= RS
    pre: -(r0 + r1) <= y <= 2 and -(r0 + r1) <= tt <= 2 and -2 <= z <= -1 and 0 <= j <= 2
    post: _
    """
    x = 0
    # C19: in a 4-tuple area negative numbers count from the current end (rows from the height,
    # columns from the width) for get_values / get_cells / get_rows alike
    t = mktab(r0, r1, 1, 1)
    h = r0 + r1
    w = 2
    a = t.get_values((x, y, z, tt))
    b = t.get_values((_norm(x, w), _norm(y, h), _norm(z, w), _norm(tt, h)))
    ok = a == b
    ca = t.get_cells((x, y, z, tt))
    ok = ok and len(ca) == len(b) and (j >= len(b) or len(ca[j]) == len(b[j]))
    ra = t.get_rows((x, y, z, tt))
    ok = ok and len(ra) == len(b) and (j >= len(ra) or ra[j].y == _norm(y, h) + j)
    return done(ok)


def kget_area_negative_cols(c0: int, c1: int, x: int, z: int, i: int) -> bool:
    """
    pre: 1 <= c0 <= RS and 1 <= c1 <= RS
    pre: -(c0 + c1) <= x <= 3 and -(c0 + c1) <= z <= 3 and 0 <= i <= 3
    post: _
    """
    t = mktab(1, 1, c0, c1)
    w = c0 + c1
    a = t.get_values((x, 0, z, -1))
    b = t.get_values((_norm(x, w), 0, _norm(z, w), 1))
    cols = t.get_columns((x, z))
    colsb = t.get_columns((_norm(x, w), _norm(z, w)))
    ok = a == b and len(cols) == len(colsb) and (i >= len(cols) or cols[i].x == colsb[i].x)
    return done(ok)


def kget_columns_range_small(c0: int, c1: int, x: int, z: int, i: int, four: bool) -> bool:
    """
    pre: 1 <= c0 <= RS and 1 <= c1 <= RS and 0 <= x <= PS and 0 <= z <= PS + 1 and 0 <= i <= PS
    post: _
    """
    # C19/C08: get_columns over a column range is bounded on both sides: columns x..min(z, width-1),
    # each stamped with its x and without repeat count, for the 2-tuple and the 4-tuple form
    t = mktab(1, 1, c0, c1)
    w = c0 + c1
    cols = t.get_columns((x, 0, z, 1)) if four else t.get_columns((x, z))
    exp_n = max(0, min(z, w - 1) - x + 1)
    ok = len(cols) == exp_n
    if i < len(cols):
        ok = ok and cols[i].x == x + i and cols[i].repeated is None
    return done(ok)


def koptimize(r0: int, r1: int, c0: int, c1: int, e_rows: int, e_cols: int, qx: int, qy: int) -> bool:
    """
    pre: 1 <= r0 <= RS + 1 and 1 <= r1 <= RS + 1 and 1 <= c0 and 1 <= c1 and 0 <= e_rows <= RS + 1 and 0 <= e_cols and 0 <= qx and 0 <= qy
    post: _
    """
    # optimize_width keeps every non-empty value at its coordinates (the last data row may itself be a
    # repeated run), reduces trailing empty rows to at most one and the trailing empty cells of every
    # row to at most one, and is idempotent
    t = mk_trailing(r0, r1, c0, c1, e_rows, e_cols, False)
    t.optimize_width()
    ew = c0 + c1 + (1 if e_cols > 0 else 0)
    eh = r0 + r1 + (1 if e_rows > 0 else 0)
    ok = t.get_value((qx, qy)) == ref(r0, r1, c0, c1, qx, qy) and x_value(t._n, qx, qy) == ref(r0, r1, c0, c1, qx, qy)
    ok = ok and t.height == eh and t.width == ew and x_total(t._n, "row") == eh
    f = wrap(t._n)  # C02: the live position maps are those of the XML read afresh
    ok = ok and t._tmap == f._tmap and t._cmap == f._cmap
    snap = snapshot(t._n)
    t.optimize_width()
    return done(ok and snapshot(t._n) == snap)


def krstrip_styled_rows(r0: int, c0: int, e_rows: int, aggressive: bool, qx: int, qy: int) -> bool:
    """
    pre: 1 <= r0 <= RS + 1 and 1 <= c0 and 1 <= e_rows <= RS + 1 and 0 <= qx and 0 <= qy
    post: _
    """
    # trailing rows made only of STYLED empty cells: removed by rstrip(aggressive=True), kept otherwise;
    # one call does the whole job (a second call changes nothing)
    from ktable import Node, KTable
    tn = Node("table")
    col = Node("column", None, c0)
    col.parent = tn
    tn.kids.append(col)
    for val, rep, styled in ((5, r0, False), (None, e_rows, True)):
        rn = Node("row", None, rep)
        c = Node("cell", val, c0, styled)
        c.parent = rn
        rn.kids.append(c)
        rn.parent = tn
        tn.kids.append(rn)
    t = KTable(_node=tn)
    t.rstrip(aggressive=aggressive)
    eh = r0 if aggressive else r0 + e_rows
    exp = 5 if (qx < c0 and qy < r0) else None
    ok = t.height == eh and x_total(t._n, "row") == eh and t.get_value((qx, qy)) == exp and t.width == c0
    snap = snapshot(t._n)
    t.rstrip(aggressive=aggressive)
    return done(ok and snapshot(t._n) == snap and t.height == eh)


def ktrans_ragged(w0: int, w1: int, rep: int, qx: int, qy: int) -> bool:
    """
    pre: 1 <= w0 <= RS + 1 and 1 <= w1 <= RS + 1 and 1 <= rep <= RS and 0 <= qx <= RS + 1 and 0 <= qy <= RS + 1
    post: _
    """
    # ragged table: a first row of w0 cells (value 1), then `rep` rows of w1 cells (value 2); missing
    # cells read as empty; transposing moves (x, y) to (y, x), twice gives the original values back
    from ktable import Node, KTable
    tn = Node("table")
    col = Node("column", None, max(w0, w1))
    col.parent = tn
    tn.kids.append(col)
    for val, width, r in ((1, w0, 1), (2, w1, rep)):
        rn = Node("row", None, r)
        c = Node("cell", val, width)
        c.parent = rn
        rn.kids.append(c)
        rn.parent = tn
        tn.kids.append(rn)
    t = KTable(_node=tn)

    def orig(x, y):
        if y == 0:
            return 1 if x < w0 else None
        if y <= rep:
            return 2 if x < w1 else None
        return None

    t.transpose()
    ok = t.get_value((qy, qx)) == orig(qx, qy)
    t.transpose()
    return done(ok and t.get_value((qx, qy)) == orig(qx, qy) and x_value(t._n, qx, qy) == orig(qx, qy))


def kget_empty_table(x: int, y: int) -> bool:
    """
    pre: -3 <= x <= 3 and -3 <= y <= 3
    post: _
    """
    # reading anywhere (negative positions included) in a table without rows, or in a row without cells,
    # returns an empty cell / row instead of failing, and does not grow the table
    from ktable import KTable
    t = KTable()
    c = t.get_cell((x, y))
    ok = c.get_value() is None and t.get_value((x, y)) is None
    r = t.get_row(y)
    ok = ok and r.width == 0 and t.width == 0 and t.height == 0 and len(t._n.kids) == 0
    row = KRow()
    rc = row.get_cell(x)
    ok = ok and rc.get_value() is None and row.get_value(x) is None and row.width == 0 and len(row._n.kids) == 0
    return done(ok)
