"""C04 A-level obligations (manifest half): the real Manifest (add_full_path, del_full_path,
get_media_type, set_media_type, get_paths, get_path_medias, make_file_entry, _file_entry) and the real
Document._add_binary_part / del_part on the lxml model, with a dict-backed container stand-in.
A history of three operations is chosen by the solver (operation kinds and which of two file names
each one addresses are symbolic; equal names are therefore explored); after EVERY step each present
non-manifest file is listed exactly once and nothing absent is listed, and the root entry keeps the
document's media type.  The zip layer (mimetype first and stored, duplicate zip entries) is zipfile
I/O and is outside this family."""
import os

import lxml.etree as ET
import symsupport as S  # noqa: F401
from odfdo.document import Blob, Document
from odfdo.element import Element
from odfdo.manifest import Manifest
from vlib.hk import done

from memdoc import memdoc

NAMES = ["a.png", "b.png"]


ROOT_PART = "layout-cache"   # a part stored at the root of the package (as office suites write)


def Doc():
    doc = memdoc({ROOT_PART: b"cache"})
    doc.manifest.add_full_path(ROOT_PART, "application/binary")
    return doc


def consistent(doc):
    listed = [str(p) for p in doc.manifest.get_paths()]
    present = [p for p in doc.container.present() if p not in ("mimetype", "META-INF/manifest.xml")]
    for p in present:
        if listed.count(p) != 1:
            return False
    for p in listed:
        if p == "/" or p.endswith("/"):
            if listed.count(p) != 1:
                return False
            continue
        if p not in present:
            return False
    return doc.manifest.get_media_type("/") == "application/vnd.oasis.opendocument.text"


def step(doc, op, i):
    name = NAMES[i]
    path = "Pictures/" + name
    if op == 0:
        b = Blob()
        b.name = name
        b.content = b"data"
        b.mime_type = "image/png"
        doc._add_binary_part(b)
    elif op == 1:
        if path in doc.container.present():
            doc.del_part(path)
    elif op == 2:
        doc.manifest.add_full_path(path, "image/png")
        doc.container.set_part(path, b"data")
    elif op == 4:
        if ROOT_PART in doc.container.present():
            doc.del_part(ROOT_PART)  # a part at the root of the package: its "folder" is the package itself
    else:
        if doc.manifest.get_media_type(path) is not None:
            doc.manifest.set_media_type(path, "image/x")
            if doc.manifest.get_media_type(path) != "image/x":
                return False
    return True


OP1 = int(os.environ.get("VERIF_OP1", "0"))  # first operation (concrete per process); it addresses name 0 (the two names are symmetric)


def manifest_history(op2: int, i2: int, op3: int, i3: int) -> bool:
    """
    pre: 0 <= op2 <= 4 and 0 <= op3 <= 4 and 0 <= i2 <= 1 and 0 <= i3 <= 1
    post: _
    """
    doc = Doc()
    ok = consistent(doc)
    for op, i in ((OP1, 0), (op2, i2), (op3, i3)):
        ok = ok and step(doc, op, i) and consistent(doc)
    # cloning preserves this: the clone's manifest matches the clone's content, the original's still its own
    c = doc.clone
    return done(ok and consistent(c) and consistent(doc) and sorted(c.container.present()) == sorted(doc.container.present()))


OP2 = int(os.environ.get("VERIF_OP2", "0"))  # thorough tier: second operation concrete too


def manifest_history3(i2: int, op3: int, i3: int) -> bool:
    """
    pre: 0 <= op3 <= 4 and 0 <= i2 <= 1 and 0 <= i3 <= 1
    post: _
    """
    # same as manifest_history with the second operation kind concrete per process too (16 processes)
    return _history3(OP2, i2, op3, i3)


def _history3(op2, i2, op3, i3):
    doc = Doc()
    ok = consistent(doc)
    for op, i in ((OP1, 0), (op2, i2), (op3, i3)):
        ok = ok and step(doc, op, i) and consistent(doc)
    c = doc.clone
    return done(ok and consistent(c) and consistent(doc) and sorted(c.container.present()) == sorted(doc.container.present()))


def manifest_history4(i2: int, op3: int, i3: int, op4: int, i4: int) -> bool:
    """
    pre: 0 <= op3 <= 4 and 0 <= op4 <= 4 and 0 <= i2 <= 1 and 0 <= i3 <= 1 and 0 <= i4 <= 1
    post: _
    """
    # four operations (the first two kinds concrete per process, the rest and all addressed names symbolic)
    doc = Doc()
    ok = consistent(doc)
    for op, i in ((OP1, 0), (OP2, i2), (op3, i3), (op4, i4)):
        ok = ok and step(doc, op, i) and consistent(doc)
    return done(ok)


def merge_images(twice: bool, fill: bool, master: bool, already: bool) -> bool:
    """
    pre: fill or master
    post: _
    """
    # merge_styles_from copies the pictures that styles refer to (a draw:fill-image, a picture in a master
    # page's header) with their manifest entries: afterwards - also when the merge is done twice or the
    # picture was already there - each file is listed exactly once and holds the other document's bytes
    from odfdo.style import Style
    dest, other = memdoc(), memdoc()
    DR = "{urn:oasis:names:tc:opendocument:xmlns:drawing:1.0}"
    XL = "{http://www.w3.org/1999/xlink}"
    ST = "{urn:oasis:names:tc:opendocument:xmlns:style:1.0}"

    def child(parent, qname):
        e = Element.make_etree_element(qname)
        parent.append(e)
        return e

    ostyles = other.styles.root._Element__element
    if fill:
        fi = child([c for c in ostyles._children if c.tag.endswith("}styles")][0], "draw:fill-image")
        fi.set(DR + "name", "F")
        fi.set(XL + "href", "Pictures/f.png")
        other.container.set_part("Pictures/f.png", b"fill")
        other.manifest.add_full_path("Pictures/f.png", "image/png")
    if master:
        mp = child([c for c in ostyles._children if c.tag.endswith("}master-styles")][0], "style:master-page")
        mp.set(ST + "name", "M")
        hd = child(mp, "style:header")
        fr = child(child(hd, "text:p"), "draw:frame")
        im = child(fr, "draw:image")
        im.set(XL + "href", "Pictures/m.png")
        other.container.set_part("Pictures/m.png", b"master")
        other.manifest.add_full_path("Pictures/m.png", "image/png")
    if already:
        dest.container.set_part("Pictures/f.png", b"old")
        dest.manifest.add_full_path("Pictures/f.png", "image/png")
    ok = consistent(dest) and consistent(other)
    dest.merge_styles_from(other)
    if twice:
        dest.merge_styles_from(other)
    ok = ok and consistent(dest) and consistent(other)
    if fill:
        ok = ok and dest.container.get_part("Pictures/f.png") == b"fill"
    if master:
        ok = ok and dest.container.get_part("Pictures/m.png") == b"master"
    return done(ok)
