"""C04 A-level obligations (manifest half): the real Manifest (add_full_path, del_full_path,
get_media_type, set_media_type, get_paths, get_path_medias, make_file_entry, _file_entry) and the real
Document._add_binary_part / del_part on the lxml model, with a dict-backed container stand-in.
A history of three operations is chosen by the solver (operation kinds and which of two file names
each one addresses are symbolic; equal names are therefore explored); after EVERY step each present
non-manifest file is listed exactly once and nothing absent is listed, and the root entry keeps the
document's media type.  The zip layer (mimetype first and stored, duplicate zip entries) is zipfile
I/O and is outside this family."""
import os

import lxml.etree as ET
import symsupport as S  # noqa: F401
from odfdo.document import Blob, Document
from odfdo.element import Element
from odfdo.manifest import Manifest
from vlib.hk import done

MANIFEST_XML = (
    '<manifest:manifest><manifest:file-entry manifest:full-path="/" manifest:media-type="application/vnd.oasis.opendocument.text"/>'
    '<manifest:file-entry manifest:full-path="content.xml" manifest:media-type="text/xml"/></manifest:manifest>'
)
NAMES = ["a.png", "b.png"]


class FakeContainer:
    """dict-backed stand-in for odfdo.container.Container: part name -> bytes, None = deleted"""

    def __init__(self):
        self._parts = {"content.xml": b"<x/>", "mimetype": b"application/vnd.oasis.opendocument.text"}

    def set_part(self, path, data):
        self._parts[path] = data

    def del_part(self, path):
        self._parts[path] = None

    @property
    def parts(self):
        # like Container.get_parts() of an in-memory container: every known name, deleted ones included
        return list(self._parts.keys())

    def present(self):
        return [k for k, v in self._parts.items() if v is not None]

    def __bool__(self):
        return True


class Doc(Document):
    def __init__(self):
        self.container = FakeContainer()
        m = Manifest.__new__(Manifest)
        m.part_name = "META-INF/manifest.xml"
        m.container = self.container
        m._XmlPart__tree = ET._ElementTree(Element.from_tag(MANIFEST_XML)._Element__element)
        m._XmlPart__root = None
        self._m = m

    @property
    def manifest(self):
        return self._m


def consistent(doc):
    listed = [str(p) for p in doc.manifest.get_paths()]
    present = [p for p in doc.container.present() if p not in ("mimetype", "META-INF/manifest.xml")]
    for p in present:
        if listed.count(p) != 1:
            return False
    for p in listed:
        if p == "/" or p.endswith("/"):
            if listed.count(p) != 1:
                return False
            continue
        if p not in present:
            return False
    return doc.manifest.get_media_type("/") == "application/vnd.oasis.opendocument.text"


def step(doc, op, i):
    name = NAMES[i]
    path = "Pictures/" + name
    if op == 0:
        b = Blob()
        b.name = name
        b.content = b"data"
        b.mime_type = "image/png"
        doc._add_binary_part(b)
    elif op == 1:
        if path in doc.container.present():
            doc.del_part(path)
    elif op == 2:
        doc.manifest.add_full_path(path, "image/png")
        doc.container.set_part(path, b"data")
    else:
        if doc.manifest.get_media_type(path) is not None:
            doc.manifest.set_media_type(path, "image/x")
            if doc.manifest.get_media_type(path) != "image/x":
                return False
    return True


OP1 = int(os.environ.get("VERIF_OP1", "0"))  # first operation (concrete per process); it addresses name 0 (the two names are symmetric)


def manifest_history(op2: int, i2: int, op3: int, i3: int) -> bool:
    """
    pre: 0 <= op2 <= 3 and 0 <= op3 <= 3 and 0 <= i2 <= 1 and 0 <= i3 <= 1
    post: _
    """
    doc = Doc()
    ok = consistent(doc)
    for op, i in ((OP1, 0), (op2, i2), (op3, i3)):
        ok = ok and step(doc, op, i) and consistent(doc)
    return done(ok)
