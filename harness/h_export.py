"""C15 A-level obligations: exporters and string conversions of a real Table (real Row/Cell on the lxml
model) never change it.  Table = one row [1, empty x c_empty] followed by r_empty empty rows (the
shape on which width optimisation has something to remove); the repeats are symbolic (small)."""
import symsupport as S
from odfdo.cell import Cell
from odfdo.row import Row
from odfdo.table import Table
from vlib.hk import done


def mk(c_empty, r_empty):
    t = Table("t")
    r = Row()
    r.append_cell(Cell(1), clone=False)
    if c_empty:
        r.append_cell(Cell(None, repeated=c_empty), clone=False)
    t.append_row(r, clone=False)
    if r_empty:
        r2 = Row()
        r2.append_cell(Cell(None, repeated=1 + c_empty), clone=False)
        r2.repeated = r_empty
        t.append_row(r2, clone=False)
    return t


def export_pure(c_empty: int, r_empty: int, which: int) -> bool:
    """
    pre: 0 <= c_empty <= 3 and 0 <= r_empty <= 3 and 0 <= which <= 4
    post: _
    """
    t = mk(c_empty, r_empty)
    node = t._Element__element
    before = S.canon(node)
    size = t.size
    if which == 0:
        a, b = t._md_format(), t._md_format()
    elif which == 1:
        a, b = t.get_formatted_text(), t.get_formatted_text()
    elif which == 2:
        a, b = t.get_formatted_text({"rst_mode": True, "document": None, "footnotes": [], "endnotes": [], "annotations": [], "images": [], "img_counter": 0, "no_img_level": 0}), None
        b = a
    elif which == 3:
        a, b = str(t), str(t)
    else:
        a, b = t.to_csv(), t.to_csv()
    return done(S.canon(node) == before and t.size == size and a == b and t._tmap == Table(tag_or_elem=node)._tmap)
