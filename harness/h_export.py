"""C15 A-level obligations: exporters and string conversions of a real Table (real Row/Cell on the lxml
model) never change it.  Table = one row [1, empty x c_empty] followed by r_empty empty rows (the
shape on which width optimisation has something to remove); the repeats are symbolic (small)."""
import symsupport as S
from odfdo.cell import Cell
from odfdo.row import Row
from odfdo.table import Table
from vlib.hk import done


def mk(c_empty, r_empty):
    t = Table("t")
    r = Row()
    r.append_cell(Cell(1), clone=False)
    if c_empty:
        r.append_cell(Cell(None, repeated=c_empty), clone=False)
    t.append_row(r, clone=False)
    if r_empty:
        r2 = Row()
        r2.append_cell(Cell(None, repeated=1 + c_empty), clone=False)
        r2.repeated = r_empty
        t.append_row(r2, clone=False)
    return t


def export_pure(c_empty: int, r_empty: int, which: int) -> bool:
    """
    pre: 0 <= c_empty <= 3 and 0 <= r_empty <= 3 and 0 <= which <= 4
    post: _
    """
    t = mk(c_empty, r_empty)
    node = t._Element__element
    before = S.canon(node)
    size = t.size
    if which == 0:
        a, b = t._md_format(), t._md_format()
    elif which == 1:
        a, b = t.get_formatted_text(), t.get_formatted_text()
    elif which == 2:
        a, b = t.get_formatted_text({"rst_mode": True, "document": None, "footnotes": [], "endnotes": [], "annotations": [], "images": [], "img_counter": 0, "no_img_level": 0}), None
        b = a
    elif which == 3:
        a, b = str(t), str(t)
    else:
        a, b = t.to_csv(), t.to_csv()
    return done(S.canon(node) == before and t.size == size and a == b and t._tmap == Table(tag_or_elem=node)._tmap)


def text_export_twice(n_notes: int, header: bool, simple: bool, t: str) -> bool:
    """
    pre: 0 <= n_notes <= 2 and len(t) <= 1 and all(c in "ab" for c in t)
    post: _
    """
    # Paragraph / Header .get_formatted_text() on the element itself (no context given), holding notes
    # without citation label (numbered by the exporter): the same answer twice, the same answer from an
    # identical element built afresh, and the element untouched
    from odfdo.header import Header
    from odfdo.note import Note
    from odfdo.paragraph import Paragraph

    def build():
        e = Header(1, "T" + t) if header else Paragraph("T" + t)
        for i in range(n_notes):
            e.append(Note(note_class="footnote", note_id="n%d" % i, body="note"))
            e.append("x")
        return e

    e1, e2 = build(), build()
    node = e1._Element__element
    before = S.canon(node)
    a = e1.get_formatted_text(simple=simple) if not header else e1.get_formatted_text(simple=simple)
    b = e1.get_formatted_text(simple=simple)
    c = e2.get_formatted_text(simple=simple)
    return done(a == b and a == c and S.canon(node) == before)
