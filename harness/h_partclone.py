"""C10 A-level obligations on XML parts: the real XmlPart.clone (and Container.clone through it) on a
real Document over an in-memory container (memdoc.py).  A clone of a part is equal at birth - tree
AND behaviour - and independent for life."""
import symsupport as S
from memdoc import memdoc
from vlib.hk import done


def meta_clone(s: str, set_before: bool, edit_clone: bool, t: str) -> bool:
    """
    pre: len(s) <= 2 and len(t) <= 2 and all(32 < ord(c) < 127 for c in s + t)
    post: _
    """
    doc = memdoc()
    meta = doc.meta
    if set_before:
        meta.generator = "G" + s  # an explicit generator must survive save-time stamping, in the clone too
    c = meta.clone
    born = S.canon(c.root._Element__element) == S.canon(meta.root._Element__element) and type(c) is type(meta)
    # same later operation, same result on both twins
    meta.set_generator_default()
    c.set_generator_default()
    same_behaviour = c.generator == meta.generator and (not set_before or meta.generator == "G" + s)
    # independent for life
    a, b = (c, meta) if edit_clone else (meta, c)
    before = S.canon(b.root._Element__element)
    a.title = "T" + t
    indep = S.canon(b.root._Element__element) == before and a.title == "T" + t and b.title != "T" + t
    return done(born and same_behaviour and indep)


def content_clone(t: str, edit_clone: bool) -> bool:
    """
    pre: len(t) <= 2 and all(c in "ab" for c in t)
    post: _
    """
    from odfdo.paragraph import Paragraph
    doc = memdoc()
    content = doc.content
    doc.body.append(Paragraph("x" + t))
    c = content.clone
    born = S.canon(c.root._Element__element) == S.canon(content.root._Element__element)
    a, b = (c, content) if edit_clone else (content, c)
    before = S.canon(b.root._Element__element)
    a.body.append(Paragraph("y"))
    indep = S.canon(b.root._Element__element) == before and len(a.body.get_elements("text:p")) == 2 and len(b.body.get_elements("text:p")) == 1
    return done(born and indep)
