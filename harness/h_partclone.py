"""C10 A-level obligations on XML parts: the real XmlPart.clone (and Container.clone through it) on a
real Document over an in-memory container (memdoc.py).  A clone of a part is equal at birth - tree
AND behaviour - and independent for life."""
import symsupport as S
from memdoc import memdoc
from vlib.hk import done


def _ser_ok(part):
    """what the part serialises is its tree as it is in memory (clone included, edits included)"""
    import lxml.etree as ET
    return S.canon(ET.fromstring(part.serialize())) == S.canon(part.root._Element__element)


def meta_clone(s: str, set_before: bool, edit_clone: bool, t: str) -> bool:
    """
    pre: len(s) <= 2 and len(t) <= 2 and all(32 < ord(c) < 127 for c in s + t)
    post: _
    """
    doc = memdoc()
    meta = doc.meta
    if set_before:
        meta.generator = "G" + s  # an explicit generator must survive save-time stamping, in the clone too
    c = meta.clone
    born = S.canon(c.root._Element__element) == S.canon(meta.root._Element__element) and type(c) is type(meta)
    # same later operation, same result on both twins
    meta.set_generator_default()
    c.set_generator_default()
    same_behaviour = c.generator == meta.generator and (not set_before or meta.generator == "G" + s)
    # independent for life
    a, b = (c, meta) if edit_clone else (meta, c)
    before = S.canon(b.root._Element__element)
    a.title = "T" + t
    indep = S.canon(b.root._Element__element) == before and a.title == "T" + t and b.title != "T" + t
    return done(born and same_behaviour and indep)


def content_clone(t: str, edit_clone: bool) -> bool:
    """
    pre: len(t) <= 2 and all(c in "ab" for c in t)
    post: _
    """
    from odfdo.paragraph import Paragraph
    doc = memdoc()
    content = doc.content
    doc.body.append(Paragraph("x" + t))
    c = content.clone
    born = S.canon(c.root._Element__element) == S.canon(content.root._Element__element)
    a, b = (c, content) if edit_clone else (content, c)
    before = S.canon(b.root._Element__element)
    a.body.append(Paragraph("y"))
    indep = S.canon(b.root._Element__element) == before and len(a.body.get_elements("text:p")) == 2 and len(b.body.get_elements("text:p")) == 1
    return done(born and indep and _ser_ok(c) and _ser_ok(content))


def _doc_state(doc):
    """every XML part as the document itself sees it (canonical trees) + the other parts' bytes"""
    out = {}
    for p in ("content.xml", "styles.xml", "meta.xml", "settings.xml", "META-INF/manifest.xml"):
        out[p] = S.canon(doc.get_part(p).root._Element__element)
    for p in doc.container.present():
        if p not in out:
            out[p] = doc.container.get_part(p)
    return out


import os

MASK = int(os.environ.get("VERIF_MASK", "0"))  # (add_blob, del_blob, edit_clone) concrete per process


def doc_clone(touch_body: bool, touch_styles: bool, touch_meta: bool, add_blob: bool) -> bool:
    """
    post: _
    """
    t = "ab"
    del_blob, edit_clone = bool(MASK & 1), bool(MASK & 2)
    # Document.clone: equal at birth whatever was edited since the parts were loaded (body, styles,
    # metadata, a binary part added - manifest entry included - or deleted), cloning leaves the
    # original as it was, and afterwards an edit of either one is not seen by the other
    from odfdo.document import Blob
    from odfdo.paragraph import Paragraph
    from odfdo.style import Style
    doc = memdoc({"Pictures/old.png": b"old"})
    doc.manifest.add_full_path("Pictures/old.png", "image/png")
    if touch_body:
        doc.body.append(Paragraph("x" + t))
    if touch_styles:
        doc.insert_style(Style("paragraph", name="S" + t))
    if touch_meta:
        doc.meta.title = "T" + t
    if add_blob:
        b = Blob()
        b.name, b.content, b.mime_type = "a.png", b"data", "image/png"
        doc._add_binary_part(b)
    if del_blob:
        doc.del_part("Pictures/old.png")
    before = _doc_state(doc)
    c = doc.clone
    ok = _doc_state(doc) == before            # cloning never modifies the original
    ok = ok and _doc_state(c) == before       # equal at birth
    ok = ok and sorted(c.container.present()) == sorted(doc.container.present())
    a, b2 = (c, doc) if edit_clone else (doc, c)
    a.body.append(Paragraph("y"))
    a.meta.title = "other"
    a.manifest.add_full_path("Pictures/z.png", "image/png")
    a.container.set_part("Pictures/z.png", b"z")
    return done(ok and _doc_state(b2) == before)
