"""C01/C02/C07 A-level obligations: the real Row and Cell classes (row.py, cell.py with their
STRING-valued repeat accessors, element.py, element_cached.py) on the lxml model, small repeats.
These are the only obligations that exercise `repeated`/`_set_repeated` of cell.py/row.py and
Cell.clone as written (the KT layer replaces them by integer-valued stand-ins)."""
import symsupport as S
from odfdo.cell import Cell
from odfdo.row import Row
from vlib.hk import done

TN = "{urn:oasis:names:tc:opendocument:xmlns:table:1.0}"
ON = "{urn:oasis:names:tc:opendocument:xmlns:office:1.0}"


def mkrow(c0, c1):
    row = Row()
    row.append_cell(Cell(1, repeated=c0), clone=False)
    row.append_cell(Cell(2, repeated=c1), clone=False)
    return row


def xml_runs(row):
    """independent reader: (value, repeat) of each cell child, straight from the tree"""
    out = []
    for c in row._Element__element._children:
        r = c.attrib.get(TN + "number-columns-repeated")
        v = c.attrib.get(ON + "value")
        out.append((None if v is None else int(v), 1 if r is None else int(r), r))
    return out


def lookup(runs, q):
    acc = 0
    for item in runs:
        if q < acc + item[1]:
            return item[0]
        acc += item[1]
    return None


def judge(row, exp, exp_w, q):
    runs = xml_runs(row)
    ok = row.get_value(q) == exp and row.width == exp_w and lookup(runs, q) == exp and sum(r[1] for r in runs) == exp_w
    f = Row(tag_or_elem=row._Element__element)
    ok = ok and row._rmap == f._rmap and f.get_value(q) == exp
    for _v, n, raw in runs:  # C07: repeat attributes absent or decimal integers >= 2
        if raw is not None and (n < 2 or raw != str(n)):
            ok = False
    return ok


def before(c0, c1, q):
    return 1 if q < c0 else (2 if q < c0 + c1 else None)


def arow_set(c0: int, c1: int, x: int, rn: int, q: int) -> bool:
    """
    pre: 1 <= c0 <= 3 and 1 <= c1 <= 3 and 0 <= x <= 7 and 1 <= rn <= 3 and 0 <= q <= 10
    post: _
    """
    row = mkrow(c0, c1)
    row.set_cell(x, Cell(9, repeated=rn))
    exp = 9 if x <= q < x + rn else before(c0, c1, q)
    return done(judge(row, exp, max(c0 + c1, x + rn), q))


def arow_insert(c0: int, c1: int, x: int, rn: int, q: int) -> bool:
    """
    pre: 1 <= c0 <= 3 and 1 <= c1 <= 3 and 0 <= x <= 7 and 1 <= rn <= 3 and 0 <= q <= 10
    post: _
    """
    row = mkrow(c0, c1)
    row.insert_cell(x, Cell(9, repeated=rn))
    if x <= q < x + rn:
        exp = 9
    elif q < x:
        exp = before(c0, c1, q)
    else:
        exp = before(c0, c1, q - rn)
    return done(judge(row, exp, max(c0 + c1, x) + rn, q))


def arow_delete(c0: int, c1: int, x: int, q: int) -> bool:
    """
    pre: 1 <= c0 <= 3 and 1 <= c1 <= 3 and 0 <= x <= 7 and 0 <= q <= 10
    post: _
    """
    row = mkrow(c0, c1)
    row.delete_cell(x)
    w = c0 + c1
    if x >= w:
        return done(judge(row, before(c0, c1, q), w, q))
    return done(judge(row, before(c0, c1, q) if q < x else before(c0, c1, q + 1), w - 1, q))


def arow_get_clone(c0: int, c1: int, x: int) -> bool:
    """
    pre: 1 <= c0 <= 3 and 1 <= c1 <= 3 and 0 <= x <= 7
    post: _
    """
    # real Cell.clone: get_cell returns a stamped, detached copy; traverse yields unrepeated copies
    row = mkrow(c0, c1)
    row.y = 4
    snap = S.canon(row._Element__element)
    c = row.get_cell(x)
    ok = c.x == x and c.y == 4 and c.get_value() == before(c0, c1, x)
    c.set_value(77)
    c.repeated = None
    ok = ok and S.canon(row._Element__element) == snap
    cells = row.cells
    ok = ok and len(cells) == c0 + c1
    if x < len(cells):
        ok = ok and cells[x].x == x and cells[x].repeated is None and cells[x].get_value() == before(c0, c1, x)
        cells[x].set_value(78)
    return done(ok and S.canon(row._Element__element) == snap)


def arow_set_small(c0: int, c1: int, x: int, rn: int, q: int) -> bool:
    """
    pre: 1 <= c0 <= 2 and 1 <= c1 <= 2 and 0 <= x <= 4 and 1 <= rn <= 2 and 0 <= q <= 6
    post: _
    """
    return arow_set(c0, c1, x, rn, q)


def arow_insert_small(c0: int, c1: int, x: int, rn: int, q: int) -> bool:
    """
    pre: 1 <= c0 <= 2 and 1 <= c1 <= 2 and 0 <= x <= 4 and 1 <= rn <= 2 and 0 <= q <= 6
    post: _
    """
    return arow_insert(c0, c1, x, rn, q)


def acell_clone(x: int, y: int, has_x: bool, has_y: bool, rep: int, edit_clone: bool) -> bool:
    """
    pre: 0 <= x <= 3 and 0 <= y <= 3 and 1 <= rep <= 3
    post: _
    """
    # Cell.clone / Row.clone: equal at birth - XML, repeat count AND the cached position (0 included,
    # None when the cell was never placed) - and independent afterwards
    c = Cell(5, repeated=rep if rep > 1 else None)
    c.x = x if has_x else None
    c.y = y if has_y else None
    k = c.clone
    ok = k.x == c.x and k.y == c.y and (k.x is None) == (not has_x) and (k.y is None) == (not has_y)
    ok = ok and S.canon(k._Element__element) == S.canon(c._Element__element) and k.repeated == c.repeated
    a, b = (k, c) if edit_clone else (c, k)
    before = S.canon(b._Element__element)
    a.set_value(7)
    a.x = 9
    a.repeated = None
    ok = ok and S.canon(b._Element__element) == before and b.x == (x if has_x else None) and b.get_value() == 5
    row = Row()
    row.append_cell(c, clone=False)
    row.y = y if has_y else None
    r2 = row.clone
    ok = ok and r2.y == row.y and S.canon(r2._Element__element) == S.canon(row._Element__element) and r2._rmap == row._rmap and r2._rmap is not row._rmap
    return done(ok)
