"""E1b typed-element layer: the REAL odfdo.table.Table / odfdo.row.Row methods and all of
element_cached.py run on integer-valued primitives, so repeats, coordinates and probes can be
unbounded symbolic ints.

KRow(KBase, Row) and KTable(KBase, Table) subclass the real classes; KBase overrides only what
`Element` implements with lxml (children list, attribute dict).  The leaves Cell/Column are
replaced by IntCell/IntColumn (payload, integer repeat, x, y) through the module globals of
odfdo.row / odfdo.table.  Node records are kept apart from wrappers: every lookup returns a FRESH
wrapper around the shared node (as Element.from_tag / from_tag_for_clone do), so per-wrapper caches
(_rmap, _tmap, _indexes) can go stale exactly like the real ones.

Not exercised at this layer (E2 covers them): the string-valued repeated/_set_repeated accessors
of row.py / cell.py / table.py and everything inside Cell.
"""
import odfdo.row as R
import odfdo.table as T
from odfdo.row import Row
from odfdo.table import Table


class Node:
    def __init__(self, kind, payload=None, rep=1, styled=False):
        self.kind = kind
        self.payload = payload
        self.rep = rep
        self.styled = styled
        self.kids = []
        self.parent = None
        self.attrs = {}
        self.bad_set = False  # _set_repeated was fed a value < 1 (C07)

    def deepcopy(self):
        n = Node(self.kind, self.payload, self.rep, self.styled)
        n.attrs = dict(self.attrs)
        n.bad_set = self.bad_set
        for k in self.kids:
            c = k.deepcopy()
            c.parent = n
            n.kids.append(c)
        return n


def wrap(node, cache=None):
    if node.kind == "cell":
        w = IntCell(_node=node)
    elif node.kind == "column":
        w = IntColumn(_node=node)
    elif node.kind == "row":
        w = KRow(_node=node)
    else:
        w = KTable(_node=node)
    if cache is not None and hasattr(w, "_copy_cache"):
        w._copy_cache(cache)
    return w


def _kind(scheme):
    if scheme is R._xpath_cell or scheme is R._xpath_cell_idx:
        return "cell"
    if scheme is T._xpath_row or scheme is T._xpath_row_idx:
        return "row"
    if scheme is T._xpath_column or scheme is T._xpath_column_idx:
        return "column"
    raise NotImplementedError(scheme)


class KBase:
    """the lxml-backed primitives of odfdo.element.Element, on Node records"""

    def get_elements(self, scheme):
        k = _kind(scheme)
        cache = None
        if hasattr(self, "_tmap") and hasattr(self, "_cmap"):
            # CachedElement.get_elements hands the maps to the children by reference
            cache = (self._tmap, self._cmap, self._rmap) if hasattr(self, "_rmap") else (self._tmap, self._cmap)
        return [wrap(n, cache) for n in self._n.kids if n.kind == k]

    def elements_repeated_sequence(self, scheme, name):
        k = _kind(scheme)
        out = []
        i = -1
        for n in self._n.kids:
            if n.kind == k:
                i += 1
                out.append((i, n.rep))
        return out

    def _get_element_idx2(self, scheme, idx):
        k = _kind(scheme)
        i = -1
        for n in self._n.kids:
            if n.kind == k:
                i += 1
                if i == idx:
                    return wrap(n)
        return None

    def index(self, child):
        for i, n in enumerate(self._n.kids):
            if n is child._n:
                return i
        raise ValueError("not a child")

    @staticmethod
    def _detach(n):
        if n.parent is not None:
            n.parent.kids = [k for k in n.parent.kids if k is not n]
            n.parent = None

    def insert(self, element, xmlposition=None, position=None, start=False):
        assert position is not None
        self._detach(element._n)
        element._n.parent = self._n
        self._n.kids.insert(position, element._n)

    def k_append(self, element):
        self._detach(element._n)
        element._n.parent = self._n
        self._n.kids.append(element._n)

    def extend(self, elements):
        for e in list(elements):
            self.k_append(e)

    def delete(self, child=None, keep_tail=True):
        if child is None:
            self._detach(self._n)
            return
        self._n.kids.pop(self.index(child))
        child._n.parent = None

    @property
    def parent(self):
        p = self._n.parent
        return None if p is None else wrap(p)

    @property
    def children(self):
        return [wrap(n) for n in self._n.kids]

    def get_attribute(self, name):
        return self._n.attrs.get(name)

    get_attribute_string = get_attribute

    def set_attribute(self, name, value):
        if value is None:
            self._n.attrs.pop(name, None)
        else:
            self._n.attrs[name] = value

    def del_attribute(self, name):
        del self._n.attrs[name]

    def set_style_attribute(self, name, value):
        self.set_attribute(name, value)

    def xpath(self, expr):
        if expr == "table:table-column/@table:number-columns-repeated":
            # attribute values are only fed to int() by the callers
            return [n.rep for n in self._n.kids if n.kind == "column" and n.rep >= 2]
        raise NotImplementedError("xpath " + expr)

    @property
    def document_body(self):
        return None

    def __bool__(self):
        return True

    def _set_repeated(self, r):
        if r is not None and r < 1:
            self._n.bad_set = True
        self._n.rep = 1 if (r is None or r < 2) else r


class IntCell(KBase):
    _tag = "table:table-cell"

    def __init__(self, value=None, repeated=None, style=None, _node=None, **kw):
        if _node is not None:
            self._n = _node
        else:
            self._n = Node("cell", value, repeated if (repeated is not None and repeated >= 2) else 1, style is not None)
        self.x = None
        self.y = None

    @property
    def repeated(self):
        return self._n.rep if self._n.rep >= 2 else None

    @repeated.setter
    def repeated(self, r):
        self._set_repeated(r)
        up = self._n.parent
        if up is not None and up.kind == "row":
            # mirrors cell.py repeated.setter: a fresh wrapper of the parent recomputes its cache
            wrap(up)._compute_row_cache()

    @property
    def style(self):
        return "s" if self._n.styled else None

    @property
    def type(self):
        return None if self._n.payload is None else "float"

    @property
    def clone(self):
        c = IntCell(_node=self._n.deepcopy())
        c.x = self.x
        c.y = self.y
        return c

    def get_value(self, get_type=False, **kw):
        return (self._n.payload, None) if get_type else self._n.payload

    @property
    def value(self):
        return self._n.payload

    def is_empty(self, aggressive=False):
        if self._n.payload is not None:
            return False
        if not aggressive and self._n.styled:
            return False
        return True

    def _is_spanned(self):
        return False

    def is_spanned(self, covered=True):
        return False


class IntColumn(KBase):
    _tag = "table:table-column"

    def __init__(self, default_cell_style=None, repeated=None, style=None, _node=None, **kw):
        if _node is not None:
            self._n = _node
        else:
            self._n = Node("column", None, repeated if (repeated is not None and repeated >= 2) else 1, style is not None)
        self.x = None

    @property
    def repeated(self):
        return self._n.rep if self._n.rep >= 2 else None

    @repeated.setter
    def repeated(self, r):
        self._set_repeated(r)
        up = self._n.parent
        if up is not None and up.kind == "table":
            # mirrors table.py Column.repeated setter (fresh parent wrapper recomputes its cache)
            upper = wrap(up)
            upper._compute_table_cache()
            if hasattr(self, "_cmap"):
                del self._cmap[:]
                self._cmap.extend(upper._cmap)
            else:
                self._cmap = upper._cmap

    @property
    def style(self):
        return "s" if self._n.styled else None

    @property
    def clone(self):
        c = IntColumn(_node=self._n.deepcopy())
        c.x = self.x
        return c


class KRow(KBase, Row):
    _append = KBase.k_append

    def __init__(self, width=None, repeated=None, style=None, _node=None, **kw):
        fresh = _node is None
        self._n = Node("row") if fresh else _node
        self._do_init = fresh
        # --- body of Row.__init__ (row.py) minus the lxml constructor
        self.y = None
        self._indexes = {}
        self._indexes["_rmap"] = {}
        self._compute_row_cache()
        self._tmap = []
        self._cmap = []
        if self._do_init:
            if width is not None:
                for _i in range(width):
                    self.append(IntCell())
            if repeated:
                self.repeated = repeated
            self._compute_row_cache()

    @property
    def repeated(self):
        return self._n.rep if self._n.rep >= 2 else None

    @repeated.setter
    def repeated(self, r):
        self._set_repeated(r)
        up = self._n.parent
        if up is not None and up.kind == "table":
            # mirrors row.py repeated.setter: a fresh wrapper recomputes, then copies into self._tmap
            upper = wrap(up)
            upper._compute_table_cache()
            del self._tmap[:]
            self._tmap.extend(upper._tmap)

    @property
    def style(self):
        return "s" if self._n.styled else None

    def clear(self):
        for k in self._n.kids:
            k.parent = None
        self._n.kids = []
        self._n.attrs = {}
        self._n.rep = 1
        self._rmap = []
        self._tmap = []
        self._cmap = []
        self._indexes = {"_cmap": {}, "_tmap": {}, "_rmap": {}}

    # `clone` is the REAL Row.clone property (row.py): it calls Element.clone.fget(self), which is
    # re-pointed below to the node-level deep copy, then copies y and the three maps itself.


class KTable(KBase, Table):
    _append = KBase.k_append

    def __init__(self, name="t", _node=None, **kw):
        self._n = Node("table") if _node is None else _node
        self._do_init = _node is None
        self._indexes = {}
        self._indexes["_cmap"] = {}
        self._indexes["_tmap"] = {}
        self._compute_table_cache()

    def clear(self):
        for k in self._n.kids:
            k.parent = None
        self._n.kids = []
        self._n.attrs = {}
        self._tmap = []
        self._cmap = []
        self._indexes = {"_cmap": {}, "_tmap": {}}

    # `clone` is the real Element.clone slot (re-pointed below): Table defines no clone of its own


def _element_clone(self):
    """stand-in for Element.clone (deepcopy of the lxml node under a fresh root + from_tag)"""
    return wrap(self._n.deepcopy())


import odfdo.element as _E  # noqa: E402

_E.Element.clone = property(_element_clone)

R.Cell = IntCell
T.Cell = IntCell
T.Row = KRow
T.Column = IntColumn


# ----------------------------------------------------------------- independent readers (never use maps)

def x_lookup(node, kind, q):
    """payload-bearing child of `kind` at logical position q by summing repeats; None beyond"""
    acc = 0
    for k in node.kids:
        if k.kind == kind:
            if q < acc + k.rep:
                return k
            acc += k.rep
    return None


def x_total(node, kind):
    acc = 0
    for k in node.kids:
        if k.kind == kind:
            acc += k.rep
    return acc


def x_value(tnode, qx, qy):
    r = x_lookup(tnode, "row", qy)
    if r is None:
        return None
    c = x_lookup(r, "cell", qx)
    return None if c is None else c.payload


def x_row_value(rnode, q):
    c = x_lookup(rnode, "cell", q)
    return None if c is None else c.payload


def snapshot(node):
    """structural dump of a node tree (for frame / purity conjuncts)"""
    return (node.kind, node.payload, node.rep, node.styled, tuple(snapshot(k) for k in node.kids))


def structure_ok(tnode):
    """C07 structure on the node tree: columns precede rows, rows hold only cells, repeats >= 1,
    no _set_repeated(<1), no row wider than the declared columns"""
    seen_row = False
    w = x_total(tnode, "column")
    for k in tnode.kids:
        if k.rep < 1 or k.bad_set:
            return False
        if k.kind == "row":
            seen_row = True
            for c in k.kids:
                if c.kind != "cell" or c.rep < 1 or c.bad_set:
                    return False
            if x_total(k, "cell") > w:
                return False
        elif k.kind == "column":
            if seen_row:
                return False
        else:
            return False
    return True
