"""C05 A-level obligations: real Paragraph / Header / Span construction and successive appends
(paragraph.py, paragraph_base.py with the real Spacer/Tab/LineBreak, header.py, element.py) on the
lxml model, with symbolic strings.  Oracle: inner_text is the concatenation; the tree's plain-text
projection is the concatenation; the independent ODF 6.1.2 collapsing of the tree gives the
concatenation again (white-space normal form)."""
import symsupport as S
from odfdo.header import Header
from odfdo.paragraph import Paragraph, Span
from vlib.hk import done

ALPHA = "a \t\n"


def _ok(p, text):
    node = p._Element__element
    return p.inner_text == text and S.plain_text(node) == text and S.collapse_tree(node) == text


def para_one(s: str) -> bool:
    """
    pre: len(s) <= 3 and all(c in ALPHA for c in s)
    post: _
    """
    return done(_ok(Paragraph(s), s))


def span_one(s: str) -> bool:
    """
    pre: len(s) <= 3 and all(c in ALPHA for c in s)
    post: _
    """
    # created from the string alone (a later append would re-normalise the content)
    return done(_ok(Span(s), s))


def header_one(s: str) -> bool:
    """
    pre: len(s) <= 3 and all(c in ALPHA for c in s)
    post: _
    """
    return done(_ok(Header(1, s), s))


def para_two_appends(s1: str, s2: str) -> bool:
    """
    pre: len(s1) <= 2 and len(s2) <= 2 and all(c in ALPHA for c in s1 + s2)
    post: _
    """
    p = Paragraph(s1)
    p.append_plain_text(s2)
    return done(_ok(p, s1 + s2))


def para_three_appends(s1: str, s2: str, s3: str) -> bool:
    """
    pre: len(s1) <= 2 and len(s2) <= 1 and len(s3) <= 1 and all(c in ALPHA for c in s1 + s2 + s3)
    post: _
    """
    p = Paragraph(s1)
    p.append(s2)
    p.append(s3)
    return done(_ok(p, s1 + s2 + s3))


def header_two_appends(s1: str, s2: str) -> bool:
    """
    pre: len(s1) <= 2 and len(s2) <= 2 and all(c in ALPHA for c in s1 + s2)
    post: _
    """
    h = Header(1, s1)
    h.append_plain_text(s2)
    return done(_ok(h, s1 + s2))


def span_two_appends(s1: str, s2: str) -> bool:
    """
    pre: len(s1) <= 2 and len(s2) <= 2 and all(c in ALPHA for c in s1 + s2)
    post: _
    """
    sp = Span(s1)
    sp.append_plain_text(s2)
    return done(_ok(sp, s1 + s2))


def para_unformatted_append(s1: str, s2: str) -> bool:
    """
    pre: len(s1) <= 2 and len(s2) <= 2 and all(c in ALPHA for c in s1 + s2)
    post: _
    """
    # append(formatted=False): blanks of the appended piece collapse to single spaces first,
    # the result must still be in normal form and read back as s1 + collapsed(s2)
    p = Paragraph(s1)
    p.append(s2, formatted=False)
    exp = ""
    blank = False
    for c in s2:
        if c in " \t\n":
            if not blank:
                exp += " "
            blank = True
        else:
            exp += c
            blank = False
    return done(_ok(p, s1 + exp))


NBSP = chr(160)


def para_nbsp(s: str) -> bool:
    """
    pre: len(s) <= 3 and all(c in ("a", " ", NBSP) for c in s)
    post: _
    """
    # non-ASCII white space (NO-BREAK SPACE) is ordinary text for ODF: it must come back unchanged
    p = Paragraph(s)
    node = p._Element__element
    return done(p.inner_text == s and S.plain_text(node) == s)
