"""C05 kernel obligations: the white-space encoding pipeline of odfdo.paragraph (real
_sub_merge_spaces, _merge_spaces, _sub_replace_tabs_lb, _replace_tabs_lb, _unformatted) with
Spacer/Tab/LineBreak replaced by token classes, so that Spacer(len(item)) stays symbolic.

Oracle: (1) decoding the token list gives back the string; (2) an independent implementation of
ODF 1.2 section 6.1.2 white-space collapsing, applied to the token list the way consumers do
(an element ends a run of white space), returns the string again - i.e. the output is in
white-space normal form.  The strict reading of 6.1.2 (character data concatenated across
elements) differs only on strings such as TAB SPACE 'a' and is reported as a note by a companion.
"""
import odfdo.paragraph as P
from odfdo.paragraph import Paragraph
from vlib.hk import done


class S:
    def __init__(self, n=1):
        self.n = n


class T:
    pass


class L:
    pass


ALPHA4 = "a \t\n"
ALPHA6 = "a \t\n<é"

P.Spacer = S
P.Tab = T
P.LineBreak = L


class D:
    _sub_merge_spaces = staticmethod(Paragraph._sub_merge_spaces)
    _sub_replace_tabs_lb = staticmethod(Paragraph._sub_replace_tabs_lb)


def pipeline(text):
    d = D()
    content = Paragraph._merge_spaces(d, [text])
    content = Paragraph._replace_tabs_lb(d, content)
    return content


def decode(tokens):
    out = ""
    for t in tokens:
        if isinstance(t, str):
            out += t
        elif isinstance(t, S):
            out += " " * t.n
        elif isinstance(t, T):
            out += "\t"
        else:
            out += "\n"
    return out


def collapse(tokens, strict):
    """ODF 1.2 6.1.2 as a consumer applies it: in character data TAB/CR/LF become spaces, runs of
    spaces collapse to one, leading (paragraph start) and trailing (paragraph end) spaces vanish;
    text:s / text:tab / text:line-break contribute their characters and (consumer reading) end the
    current run of white space."""
    out = ""
    last_space = True  # paragraph start
    pending = False
    for t in tokens:
        if isinstance(t, str):
            for c in t:
                if c == " " or c == "\t" or c == "\n" or c == "\r":
                    if not last_space:
                        pending = True
                        last_space = True
                else:
                    if pending:
                        out += " "
                        pending = False
                    out += c
                    last_space = False
        else:
            if pending:
                out += " "
                pending = False
            if isinstance(t, S):
                if t.n < 1:
                    return None
                out += " " * t.n
            elif isinstance(t, T):
                out += "\t"
            else:
                out += "\n"
            if not strict:
                last_space = False
    return out  # a pending trailing space is dropped


def ws_roundtrip(text: str) -> bool:
    """
    pre: len(text) <= 4
    pre: all(c in ALPHA6 for c in text)
    post: _
    """
    toks = pipeline(text)
    return done(decode(toks) == text and collapse(toks, False) == text)


def ws_roundtrip5(text: str) -> bool:
    """
    pre: len(text) == 5
    pre: all(c in ALPHA4 for c in text)
    post: _
    """
    toks = pipeline(text)
    return done(decode(toks) == text and collapse(toks, False) == text)


def ws_strict_note(text: str) -> bool:
    """
    pre: len(text) <= 3
    pre: all(c in ALPHA4 for c in text)
    post: _
    """
    # companion: the strict reading of 6.1.2 - expected to have counterexamples (TAB SPACE 'a')
    toks = pipeline(text)
    return done(collapse(toks, True) == text)


def ws_tokens_wellformed(text: str) -> bool:
    """
    pre: len(text) <= 4
    pre: all(c in ALPHA4 for c in text)
    post: _
    """
    # no empty string token, no text:s of length < 1, never two adjacent string tokens that
    # would merge into a text node with a double space, no raw tab/LF left in text
    toks = pipeline(text)
    prev_str = False
    for t in toks:
        if isinstance(t, str):
            if t == "" or "\t" in t or "\n" in t or "  " in t:
                return done(False)
            if prev_str:
                return done(False)
            prev_str = True
        else:
            if isinstance(t, S) and t.n < 1:
                return done(False)
            prev_str = False
    return done(True)


def unformatted_ok(text: str) -> bool:
    """
    pre: len(text) <= 4
    pre: all(c in ALPHA4 for c in text)
    post: _
    """
    # formatted=False: every run of blanks becomes ONE space, nothing else changes
    got = Paragraph._unformatted(text)
    exp = ""
    blank = False
    for c in text:
        if c in " \t\n":
            if not blank:
                exp += " "
            blank = True
        else:
            exp += c
            blank = False
    return done(got == exp)
