"""C19 kernel obligations: odfdo.utils.coordinates (real functions, symbolic ints / short strings)."""
from odfdo.utils.coordinates import (
    alpha_to_digit,
    convert_coordinates,
    digit_to_alpha,
    increment,
    translate_from_any,
)
from vlib.hk import done

UP = "ABCDEFGHIJKLMNOPQRSTUVWXYZ"
import os

D = int(os.environ.get("VERIF_DEPTH", "0"))  # thorough tier: deeper bounds (per process)
NL = 3 + D                       # letters in a column name
LO = (0, 26, 702, 18278, 475254)
HI = (25, 701, 18277, 475253, 12356629)
XC, YC = (701, 9999) if D == 0 else (18277, 999999)   # conv_cell / conv_partial / any_str
XR, YR = (25, 99) if D == 0 else (701, 9999)          # conv_range


def rt_digit_1(n: int) -> bool:
    """
    pre: 0 <= n <= 25
    post: _
    """
    s = digit_to_alpha(n)
    return done(len(s) == 1 and alpha_to_digit(s) == n and alpha_to_digit(s.lower()) == n)


def rt_digit_2(n: int) -> bool:
    """
    pre: 26 <= n <= 701
    post: _
    """
    s = digit_to_alpha(n)
    return done(len(s) == 2 and alpha_to_digit(s) == n)


def rt_digit_3(n: int) -> bool:
    """
    pre: 702 <= n <= 18277
    post: _
    """
    s = digit_to_alpha(n)
    return done(len(s) == 3 and alpha_to_digit(s) == n)


def rt_digit_4(n: int) -> bool:
    """
    pre: 18278 <= n <= 475253
    post: _
    """
    s = digit_to_alpha(n)
    return done(len(s) == 4 and alpha_to_digit(s) == n)


def rt_alpha(s: str) -> bool:
    """
    pre: 1 <= len(s) <= NL
    pre: all(c in UP for c in s)
    post: _
    """
    # letters -> number -> letters is the identity, and the number is in the range of its length
    n = alpha_to_digit(s)
    lo = LO[len(s) - 1]
    hi = HI[len(s) - 1]
    return done(lo <= n <= hi and digit_to_alpha(n) == s)


def alpha_monotone(a: int, b: int) -> bool:
    """
    pre: 0 <= a < b <= HI[NL - 1]
    post: _
    """
    # injectivity of the rendering on the whole 3-letter range (bijection, with rt_alpha)
    return done(digit_to_alpha(a) != digit_to_alpha(b))


def conv_cell(x: int, y: int) -> bool:
    """
    pre: 0 <= x <= XC and 0 <= y <= YC
    post: _
    """
    # a written address parses back to the numbers it was written from
    s = digit_to_alpha(x) + str(y + 1)
    return done(convert_coordinates(s) == (x, y) and convert_coordinates((x, y)) == (x, y))


def conv_range(x: int, y: int, z: int, t: int) -> bool:
    """
    pre: 0 <= x <= XR and 0 <= y <= YR and 0 <= z <= XR and 0 <= t <= YR
    post: _
    """
    s = digit_to_alpha(x) + str(y + 1) + ":" + digit_to_alpha(z) + str(t + 1)
    return done(convert_coordinates(s) == (x, y, z, t))


def conv_partial(x: int, z: int, y: int, t: int, cols: bool) -> bool:
    """
    pre: 0 <= x <= XC and 0 <= z <= XC and 0 <= y <= YC and 0 <= t <= YC
    post: _
    """
    # partial ranges: 'A:C' addresses columns only, '1:4' rows only
    if cols:
        s = digit_to_alpha(x) + ":" + digit_to_alpha(z)
        return done(convert_coordinates(s) == (x, None, z, None))
    s = str(y + 1) + ":" + str(t + 1)
    return done(convert_coordinates(s) == (None, y, None, t))


def neg_index(v: int, n: int) -> bool:
    """
    pre: 1 <= n and -n <= v < 0
    post: _
    """
    # negative numbers count from the current end
    return done(increment(v, n) == n + v and translate_from_any(v, n, 0) == n + v)


def neg_index_empty(v: int) -> bool:
    """
    pre: -1000 <= v < 0
    post: _
    """
    # a negative position on an EMPTY row or table (length 0) designates position 0: reading there gives an
    # empty cell or row instead of failing
    return done(increment(v, 0) == 0 and translate_from_any(v, 0, 0) == 0 and translate_from_any(v, 0, 1) == 0)


def neg_index_wrap(v: int, n: int) -> bool:
    """
    pre: 1 <= n <= 6 and -3 * n <= v < 0
    post: _
    """
    # below -n the position keeps wrapping: the result is the position congruent to v in 0..n-1
    r = increment(v, n)
    return done(0 <= r < n and (r - v) % n == 0 and translate_from_any(v, n, 1) == r)


def nonneg_index(v: int, n: int) -> bool:
    """
    pre: 0 <= n and 0 <= v
    post: _
    """
    return done(translate_from_any(v, n, 0) == v and translate_from_any(v, n, 1) == v)


def any_str(x: int, y: int, n: int) -> bool:
    """
    pre: 0 <= x <= XC and 0 <= y <= YC and 0 <= n
    post: _
    """
    # string forms accepted wherever a position is: column letters, 1-based row number
    return done(translate_from_any(digit_to_alpha(x), n, 0) == x and translate_from_any(str(y + 1), n, 1) == y)
