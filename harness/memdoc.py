"""A real odfdo Document over an in-memory container (no zip, no filesystem): MemContainer is a
dict-backed subclass of odfdo.container.Container, handed to Document(container) - the library's own
"existing container" entry - so Document.__init__, get_part and the XmlPart classes run as written and
the parts are parsed (by the lxml model) from the byte strings below."""
from odfdo.container import Container
from odfdo.document import Document

NS = ('xmlns:office="urn:oasis:names:tc:opendocument:xmlns:office:1.0" xmlns:text="urn:oasis:names:tc:opendocument:xmlns:text:1.0" '
      'xmlns:style="urn:oasis:names:tc:opendocument:xmlns:style:1.0" xmlns:meta="urn:oasis:names:tc:opendocument:xmlns:meta:1.0" '
      'xmlns:manifest="urn:oasis:names:tc:opendocument:xmlns:manifest:1.0" xmlns:draw="urn:oasis:names:tc:opendocument:xmlns:drawing:1.0" '
      'xmlns:table="urn:oasis:names:tc:opendocument:xmlns:table:1.0" xmlns:svg="urn:oasis:names:tc:opendocument:xmlns:svg-compatible:1.0" '
      'xmlns:fo="urn:oasis:names:tc:opendocument:xmlns:xsl-fo-compatible:1.0" xmlns:xlink="http://www.w3.org/1999/xlink"')
MIME = "application/vnd.oasis.opendocument.text"

DEFAULT_PARTS = {
    "mimetype": MIME.encode(),
    "content.xml": ('<office:document-content %s><office:font-face-decls/><office:automatic-styles/>'
                    '<office:body><office:text/></office:body></office:document-content>' % NS).encode(),
    "styles.xml": ('<office:document-styles %s><office:font-face-decls/><office:styles/>'
                   '<office:automatic-styles/><office:master-styles/></office:document-styles>' % NS).encode(),
    "meta.xml": ('<office:document-meta %s><office:meta><meta:generator>x</meta:generator></office:meta></office:document-meta>' % NS).encode(),
    "settings.xml": ('<office:document-settings %s/>' % NS).encode(),
    "META-INF/manifest.xml": ('<manifest:manifest %s><manifest:file-entry manifest:full-path="/" manifest:media-type="%s"/>'
                              '<manifest:file-entry manifest:full-path="content.xml" manifest:media-type="text/xml"/>'
                              '<manifest:file-entry manifest:full-path="styles.xml" manifest:media-type="text/xml"/>'
                              '<manifest:file-entry manifest:full-path="meta.xml" manifest:media-type="text/xml"/>'
                              '<manifest:file-entry manifest:full-path="settings.xml" manifest:media-type="text/xml"/>'
                              '</manifest:manifest>' % (NS, MIME)).encode(),
}


class MemContainer(Container):
    """part name -> bytes, None = marked deleted (like Container.__parts of an in-memory container)"""

    def __init__(self, parts=None):
        self._p = dict(DEFAULT_PARTS)
        if parts:
            self._p.update(parts)
        self.saved = []
        self.path = None

    def get_part(self, path):
        if path not in self._p:
            raise ValueError("no part " + path)
        v = self._p[path]
        if v is None:
            raise ValueError(f'Part "{path}" is deleted')
        return v

    def set_part(self, path, data):
        self._p[path] = data

    def del_part(self, path):
        self._p[path] = None

    def get_parts(self):
        return list(self._p.keys())

    @property
    def parts(self):
        return list(self._p.keys())

    def present(self):
        return [k for k, v in self._p.items() if v is not None]

    @property
    def mimetype(self):
        return self._p["mimetype"].decode()

    @property
    def default_manifest_rdf(self):
        return "<rdf/>"

    def save(self, target=None, packaging="zip", backup=False, pretty=False):
        self.saved.append(dict(self._p))


def memdoc(parts=None):
    return Document(MemContainer(parts))
