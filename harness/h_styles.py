"""C13 A-level obligations: the real Document.insert_style (with its _insert_style_* helpers,
_set_automatic_name), Document.get_style / get_styles, Styles/Content.get_style(s) and
_get_style_contexts, Element.get_style(s)/_get_style_tagname and make_xpath_query, on the lxml model.

The document is a real Document over an in-memory container (memdoc.py) whose styles.xml and
content.xml hold the empty style containers (office:font-face-decls, office:styles,
office:automatic-styles, office:master-styles); no zip or filesystem is involved.  Style names are symbolic strings; the family
is concrete per process (VERIF_FAMILY), the automatic/default flags are symbolic where the family
allows them.  Oracle (a table written from the ODF schema): the inserted style sits in the container
its family/flags require, each container holds at most one style per (tag, family, name), lookup by
the returned name finds exactly the inserted node, generated automatic names never collide."""
import os

import lxml.etree as ET
import symsupport as S  # noqa: F401
from odfdo.content import Content
from odfdo.document import Document
from odfdo.element import Element
from odfdo.style import Style
from odfdo.styles import Styles
from vlib.hk import done

FAMILY = os.environ.get("VERIF_FAMILY", "paragraph")

from memdoc import memdoc


def Doc():
    """a real Document (Document.__init__ runs) over an in-memory container whose styles.xml and
    content.xml hold the empty style containers"""
    return memdoc()


def containers(doc):
    s = doc.styles.root._Element__element
    c = doc.content.root._Element__element
    out = {}
    for part, root in (("styles", s), ("content", c)):
        for ch in root._children:
            out[part + ":" + ch.tag.rpartition("}")[2]] = ch
    return out


def where(doc, node):
    for k, cont in containers(doc).items():
        for ch in cont._children:
            if ch is node:
                return k
    return None


def unique_ok(doc):
    for cont in containers(doc).values():
        seen = []
        for ch in cont._children:
            key = (ch.tag, ch.attrib.get(S_NS + "family"), ch.attrib.get(S_NS + "name"))
            for other in seen:
                if other == key:
                    return False
            seen.append(key)
    return True


S_NS = "{urn:oasis:names:tc:opendocument:xmlns:style:1.0}"


def expected_container(family, automatic, default):
    if family == "master-page":
        return "styles:master-styles"
    if family == "page-layout":
        return "styles:automatic-styles"
    if family == "font-face":
        return "styles:font-face-decls" if default else "content:font-face-decls"
    if automatic:
        return "content:automatic-styles"
    return "styles:styles"


def _mk(family, name):
    if family == "font-face":
        return Style(family, font_name=name)  # a font-face style is named after its font
    return Style(family, name=name)


def insert_named(n1: str, n2: str, automatic: bool) -> bool:
    """
    pre: 1 <= len(n1) <= 2 and 1 <= len(n2) <= 2 and all(c in "ab" for c in n1 + n2)
    post: _
    """
    # two successive inserts of named styles of the same family (names may coincide - the solver
    # decides): right container, replaced not duplicated, found again under the returned name
    doc = Doc()
    st1 = _mk(FAMILY, n1)
    st2 = _mk(FAMILY, n2)
    r1 = doc.insert_style(st1, automatic=automatic)
    r2 = doc.insert_style(st2, automatic=automatic)
    exp = expected_container(FAMILY, automatic, False)
    ok = r1 == n1 and r2 == n2 and where(doc, st2._Element__element) == exp and unique_ok(doc)
    got2 = doc.get_style(FAMILY, r2)
    ok = ok and got2 is not None and got2._Element__element is st2._Element__element
    got1 = doc.get_style(FAMILY, r1)
    if n1 == n2:
        ok = ok and where(doc, st1._Element__element) is None and got1._Element__element is st2._Element__element
    else:
        ok = ok and where(doc, st1._Element__element) == exp and got1 is not None and got1._Element__element is st1._Element__element
    return done(ok)


def insert_default(n1: str) -> bool:
    """
    pre: len(n1) <= 2 and all(c in "ab" for c in n1)
    post: _
    """
    # default styles: stored as style:default-style in office:styles, replacing the previous default of
    # the family, never duplicated, found by get_style(family) without a name
    doc = Doc()
    st1 = _mk(FAMILY, n1) if n1 else Style(FAMILY)
    st2 = Style(FAMILY)
    doc.insert_style(st1, default=True)
    doc.insert_style(st2, default=True)
    cont = containers(doc)["styles:styles"]
    defaults = [c for c in cont._children if c.tag == S_NS + "default-style"]
    got = doc.get_style(FAMILY)
    ok = len(defaults) == 1 and defaults[0] is st2._Element__element and got is not None and got._Element__element is st2._Element__element
    return done(ok and st2._Element__element.attrib.get(S_NS + "name") is None)


EXISTING = ["", "x", "odfdo_auto_7", "odfdo_auto_x", "odfdo_auto_"]


def insert_automatic_unnamed(e: int, k: int) -> bool:
    """
    pre: 0 <= e <= 4 and 0 <= k <= 12
    post: _
    """
    existing = EXISTING[e]
    # generated automatic names never collide with an existing automatic style of the family, whatever
    # that style is called (the solver picks the existing name and an existing index)
    doc = Doc()
    if existing:
        doc.insert_style(_mk(FAMILY, existing), automatic=True)
    doc.insert_style(_mk(FAMILY, "odfdo_auto_" + str(k)), automatic=True)
    a = Style(FAMILY)
    b = Style(FAMILY)
    ra = doc.insert_style(a, automatic=True)
    rb = doc.insert_style(b, automatic=True)
    ok = ra != rb and ra != existing and rb != existing and ra != "odfdo_auto_" + str(k) and rb != "odfdo_auto_" + str(k)
    ok = ok and unique_ok(doc) and where(doc, a._Element__element) == "content:automatic-styles"
    ga = doc.get_style(FAMILY, ra)
    gb = doc.get_style(FAMILY, rb)
    return done(ok and ga._Element__element is a._Element__element and gb._Element__element is b._Element__element)


def insert_auto_interleaved(k: int, named_first: bool) -> bool:
    """
    pre: 1 <= k <= 4
    post: _
    """
    # unnamed automatic insert; then a style arriving under a generated-looking name odfdo_auto_<k>
    # by another route; then another unnamed insert: no two automatic styles share a name and each
    # returned name finds its own style
    doc = Doc()
    a = Style(FAMILY)
    b = Style(FAMILY)
    c = _mk(FAMILY, "odfdo_auto_" + str(k))
    if named_first:
        rc = doc.insert_style(c, automatic=True)
        ra = doc.insert_style(a, automatic=True)
    else:
        ra = doc.insert_style(a, automatic=True)
        rc = doc.insert_style(c, automatic=True)
    rb = doc.insert_style(b, automatic=True)
    ok = unique_ok(doc) and rb != ra and rb != rc
    ok = ok and doc.get_style(FAMILY, rb)._Element__element is b._Element__element
    if ra != rc:
        ok = ok and doc.get_style(FAMILY, ra)._Element__element is a._Element__element
    ok = ok and doc.get_style(FAMILY, rc)._Element__element is c._Element__element
    return done(ok)


# ---- merge_styles_from ---------------------------------------------------------------------------
def _style_state(doc):
    """every style container of both parts: which nodes (identity), with which attributes"""
    out = []
    for k, cont in containers(doc).items():
        out.append((k, [(ch, ch.tag, sorted(ch.attrib.items()), len(ch._children)) for ch in cont._children]))
    return out


def _same_state(a, b):
    if len(a) != len(b):
        return False
    for (ka, la), (kb, lb) in zip(a, b):
        if ka != kb or len(la) != len(lb):
            return False
        for (na, ta, aa, ca), (nb, tb, ab, cb) in zip(la, lb):
            if na is not nb or ta != tb or ca != cb or len(aa) != len(ab):
                return False
            for (k1, v1), (k2, v2) in zip(aa, ab):
                if k1 != k2 or not (v1 is v2 or v1 == v2):
                    return False
    return True


def _marked(family, name, mark):
    st = _mk(family, name)
    st._Element__element.set(S_NS + "class", mark)  # tells whose definition it is
    return st


MNAMES = ["a", "b", "a b"]


K1 = int(os.environ.get("VERIF_K1", "0"))  # name of dest's own style (concrete per process)


def merge_named(k2: int, automatic: bool, other_default: bool) -> bool:
    """
    pre: 0 <= k2 <= 2
    post: _
    """
    n1, n2 = MNAMES[K1], MNAMES[k2]  # (concrete names picked by the solver: equal or different is what matters here)
    # dest holds style (FAMILY, n1) [marked "mine"], a text style also called n1 and a default style;
    # the other document holds (FAMILY, n2) [marked "theirs"], possibly a default style of FAMILY.
    # After dest.merge_styles_from(other): the other document is as it was; dest holds the union, with
    # the other document's definition where both define (FAMILY, name); nothing is duplicated; styles
    # of another family or name that only dest had are still there
    dest, other = Doc(), Doc()
    mine = _marked(FAMILY, n1, "mine")
    dest.insert_style(mine, automatic=automatic)
    dest.insert_style(_marked("text" if FAMILY != "text" else "paragraph", n1, "mine-other-family"))
    dest.insert_style(Style(FAMILY), default=True)
    theirs = _marked(FAMILY, n2, "theirs")
    other.insert_style(theirs, automatic=automatic)
    if other_default:
        d2 = Style(FAMILY)
        d2._Element__element.set(S_NS + "class", "theirs")
        other.insert_style(d2, default=True)
    before_other = _style_state(other)
    dest.merge_styles_from(other)
    ok = _same_state(_style_state(other), before_other)  # the other document is left unchanged
    ok = ok and unique_ok(dest)
    got = dest.get_style(FAMILY, n2)
    ok = ok and got is not None and got._Element__element.attrib.get(S_NS + "class") == "theirs"
    ok = ok and where(dest, got._Element__element) == expected_container(FAMILY, automatic, False)
    if n1 != n2:
        g1 = dest.get_style(FAMILY, n1)
        ok = ok and g1 is not None and g1._Element__element.attrib.get(S_NS + "class") == "mine"
    of = dest.get_style("text" if FAMILY != "text" else "paragraph", n1)
    ok = ok and of is not None and of._Element__element.attrib.get(S_NS + "class") == "mine-other-family"
    dflt = dest.get_style(FAMILY)
    ok = ok and dflt is not None and (dflt._Element__element.attrib.get(S_NS + "class") == "theirs") == other_default
    return done(ok)


def merge_kind(same: bool, extra_default: bool) -> bool:
    """
    post: _
    """
    # the kinds with a container of their own (FAMILY = master-page, page-layout or font-face): the other
    # document's definition lands in the container its kind requires, replaces dest's style of the
    # same name (when `same`), leaves dest's other styles and the other document alone
    dest, other = Doc(), Doc()
    n1 = "K" if same else "K other"
    dflt = FAMILY == "font-face"   # (a font face goes to styles.xml with default=True, to content.xml otherwise)
    mine = _marked(FAMILY, n1, "mine")
    dest.insert_style(mine, default=dflt)
    keep = _marked("paragraph", "K", "mine-paragraph")
    dest.insert_style(keep)
    if extra_default:
        dest.insert_style(Style("paragraph"), default=True)
    theirs = _marked(FAMILY, "K", "theirs")
    other.insert_style(theirs, default=dflt)
    before_other = _style_state(other)
    dest.merge_styles_from(other)
    ok = _same_state(_style_state(other), before_other) and unique_ok(dest)
    got = dest.get_style(FAMILY, "K")
    ok = ok and got is not None and got._Element__element.attrib.get(S_NS + "class") == "theirs"
    ok = ok and where(dest, got._Element__element) == expected_container(FAMILY, False, dflt)
    if not same:
        g1 = dest.get_style(FAMILY, n1)
        ok = ok and g1 is not None and g1._Element__element.attrib.get(S_NS + "class") == "mine"
    kp = dest.get_style("paragraph", "K")
    ok = ok and kp is not None and kp._Element__element.attrib.get(S_NS + "class") == "mine-paragraph"
    if extra_default:
        ok = ok and dest.get_style("paragraph") is not None
    return done(ok)


def merge_marker(twice: bool, n_defaults: int, own_marker: bool) -> bool:
    """
    pre: 0 <= n_defaults <= 3
    post: _
    """
    # a pseudo style named by draw:name (draw:marker) in the other document: merged once (not duplicated by
    # a second merge), it replaces dest's marker of the same name and leaves every default style of dest alone
    fams = ["graphic", "paragraph", "table"][:n_defaults]
    dest, other = Doc(), Doc()
    for f in fams:
        d = Style(f)
        d._Element__element.set(S_NS + "class", "mine")
        dest.insert_style(d, default=True)
    DRAW = "{urn:oasis:names:tc:opendocument:xmlns:drawing:1.0}"

    def marker(mark):
        m = Element.make_etree_element("draw:marker")
        m.set(DRAW + "name", "Arrow")
        m.set(S_NS + "class", mark)
        return m

    if own_marker:
        containers(dest)["styles:styles"].append(marker("mine"))
    containers(other)["styles:styles"].append(marker("theirs"))
    before_other = _style_state(other)
    dest.merge_styles_from(other)
    if twice:
        dest.merge_styles_from(other)
    ok = _same_state(_style_state(other), before_other)
    cont = containers(dest)["styles:styles"]
    markers = [c for c in cont._children if c.tag == DRAW + "marker"]
    ok = ok and len(markers) == 1 and markers[0].attrib.get(S_NS + "class") == "theirs"
    defaults = [c.attrib.get(S_NS + "family") for c in cont._children if c.tag == S_NS + "default-style"]
    return done(ok and sorted(defaults) == sorted(fams))


def merge_cross(k2: int, mine_in_auto: bool) -> bool:
    """
    pre: 0 <= k2 <= 2
    post: _
    """
    # same family+name defined in DIFFERENT containers of styles.xml (office:styles vs
    # office:automatic-styles, as in documents written by office suites): after the merge the part
    # holds one definition of it - the other document's - and the lookup finds that one
    n1, n2 = MNAMES[K1], MNAMES[k2]
    dest, other = Doc(), Doc()
    mine = _marked(FAMILY, n1, "mine")._Element__element
    theirs = _marked(FAMILY, n2, "theirs")._Element__element
    containers(dest)["styles:automatic-styles" if mine_in_auto else "styles:styles"].append(mine)
    containers(other)["styles:styles" if mine_in_auto else "styles:automatic-styles"].append(theirs)
    before_other = _style_state(other)
    dest.merge_styles_from(other)
    ok = _same_state(_style_state(other), before_other)
    defs = []
    for k in ("styles:styles", "styles:automatic-styles"):
        for ch in containers(dest)[k]._children:
            if ch.attrib.get(S_NS + "family") == FAMILY and ch.attrib.get(S_NS + "name") == n2:
                defs.append(ch.attrib.get(S_NS + "class"))
    ok = ok and defs == ["theirs"]
    got = dest.styles.get_style(FAMILY, n2)
    ok = ok and got is not None and got._Element__element.attrib.get(S_NS + "class") == "theirs"
    if n1 != n2:
        g1 = dest.styles.get_style(FAMILY, n1)
        ok = ok and g1 is not None and g1._Element__element.attrib.get(S_NS + "class") == "mine"
    return done(ok)
