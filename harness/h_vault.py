"""E1 kernel obligations on odfdo.element_cached (real functions, unbounded ints).

The vault (a Row holding cells / a Table holding rows or columns) is replaced
by `Vault`, which implements exactly the six members the kernel functions use
(`_indexes`, map attribute, `_get_element_idx2`, `index`, `insert`, `delete`)
over a Python list of `Item`s (payload id + integer repeat).  Everything in
`set_item_in_vault / insert_item_in_vault / delete_item_in_vault /
insert_map_once / _erase_map_once / make_cache_map / find_odf_idx` is the
repository's own code.

State is the run-length encoding [(payload i, r_i)], r_i >= 1 unbounded; the
operation's position `pos`, the inserted item's repeat `rn` and the probe
index `q` are unbounded symbolic ints.  Properties are stated pointwise at q.
"""
from odfdo.element_cached import (
    set_item_in_vault,
    insert_item_in_vault,
    delete_item_in_vault,
    make_cache_map,
    find_odf_idx,
    insert_map_once,
    _erase_map_once,
)
import os

from vlib.hk import done

# which conjunct set the post-condition is (0 = all; 1/2/7/10 = that property's), fixed per process
WHICH = int(os.environ.get("VERIF_WHICH", "0"))
# number of non-item children in front of the items (concrete per process)
LEAD = int(os.environ.get("VERIF_LEAD", "0"))


class Item:
    def __init__(self, payload, repeated=1):
        self.payload = payload
        self.rep = repeated
        self.bad_set = False  # _set_repeated called with a value < 1 (C07)

    @property
    def repeated(self):
        return self.rep if self.rep >= 2 else None

    def _set_repeated(self, r):
        if r is not None and r < 1:
            self.bad_set = True
        self.rep = 1 if (r is None or r < 2) else r

    @property
    def clone(self):
        return Item(self.payload, self.rep)


class Vault:
    """`lead` = number of non-item children that precede the items (a table's
    column declarations precede its rows), so XML index != item index."""

    def __init__(self, items, lead=0):
        self.lead = lead
        self.kids = [None] * lead + list(items)
        self._indexes = {"_m": {}}
        self._m = make_cache_map([(i, it.rep) for i, it in enumerate(items)])

    @property
    def items(self):
        return [k for k in self.kids if k is not None]

    def _get_element_idx2(self, scheme, idx):
        its = self.items
        if 0 <= idx < len(its):
            return its[idx]
        return None

    def index(self, item):
        for i, it in enumerate(self.kids):
            if it is item:
                return i
        raise ValueError("not a child")

    def delete(self, item):
        self.kids.pop(self.index(item))

    def insert(self, item, position=None):
        self.kids.insert(position, item)


def lookup(runs, q):
    """payload at logical position q of the run-length list, -1 beyond the end"""
    acc = 0
    for payload, rep in runs:
        if q < acc + rep:
            return payload
        acc += rep
    return -1


def total(runs):
    acc = 0
    for _, rep in runs:
        acc += rep
    return acc


def mk(reps, lead=0, cached=False):
    v = Vault([Item(i, r) for i, r in enumerate(reps)], lead)
    if cached:
        for i, it in enumerate(v.items):
            v._indexes["_m"][i] = it
    return v


def runs_of(v):
    return [(it.payload, it.rep) for it in v.items]


class Conj:
    """conjunct set evaluated on the post-state, pointwise at q"""

    def __init__(self, v, exp, exp_total, q, twin_v=None, twin_before=None, arg=None, arg_rep=None, new_item=None, clone=True):
        after = runs_of(v)
        xml_map = make_cache_map([(i, it.rep) for i, it in enumerate(v.items)])
        idx = find_odf_idx(v._m, q)
        its = v.items
        via_map = its[idx].payload if idx is not None and idx < len(its) else -1
        # C01: the XML (run-length list) read at q is what the grid model says; size too
        self.c01 = lookup(after, q) == exp and total(after) == exp_total
        # C02: the position map equals the map recomputed from the XML, a read through
        # the map gives the same answer, and no cached wrapper survives the mutation
        self.c02 = v._m == xml_map and via_map == exp and v._indexes["_m"] == {}
        # C07: every repeat >= 1, _set_repeated never fed a value < 1, lead children stay in front
        self.c07 = all(it.rep >= 1 and not it.bad_set for it in its) and all(k is None for k in v.kids[: v.lead]) and len(v.kids) == v.lead + len(its)
        # C10: a second vault built from copies is untouched; with clone=True the caller's
        # item is neither inserted nor modified
        self.c10 = True
        if twin_v is not None:
            self.c10 = runs_of(twin_v) == twin_before and twin_v._m == make_cache_map([(i, r) for i, (_, r) in enumerate(twin_before)])
        if arg is not None:
            if clone:
                self.c10 = self.c10 and all(it is not arg for it in its) and arg.rep == arg_rep and new_item is not arg
            else:
                self.c10 = self.c10 and new_item is arg

    def all(self):
        return self.c01 and self.c02 and self.c07 and self.c10

    def pick(self, which):
        if which == 1:
            return self.c01
        if which == 2:
            return self.c02
        if which == 7:
            return self.c07
        if which == 10:
            return self.c10
        return self.all()


def crosses(reps, pos, rn):
    """the new item's span [pos, pos+rn) extends past the end of the run containing pos"""
    acc = 0
    for r in reps:
        if pos < acc + r:
            return pos + rn > acc + r
        acc += r
    return False


def _set(reps, pos, rn, q, lead, cached, clone, which):
    v = mk(reps, lead, cached)
    w = mk(reps, lead, False)
    before = runs_of(v)
    item = Item(9, rn)
    new_item = set_item_in_vault(pos, item, v, None, "_m", clone=clone)
    if pos <= q < pos + rn:
        exp = 9
    else:
        exp = lookup(before, q)
    c = Conj(v, exp, max(total(before), pos + rn), q, w, before, item, rn, new_item, clone)
    return done(c.pick(which))


def _insert(reps, pos, rn, q, lead, cached, which):
    v = mk(reps, lead, cached)
    w = mk(reps, lead, False)
    before = runs_of(v)
    item = Item(9, rn)
    new_item = insert_item_in_vault(pos, item, v, None, "_m")
    if pos <= q < pos + rn:
        exp = 9
    elif q < pos:
        exp = lookup(before, q)
    else:
        exp = lookup(before, q - rn)
    c = Conj(v, exp, total(before) + rn, q, w, before, item, rn, new_item, True)
    return done(c.pick(which))


def _delete(reps, pos, q, lead, cached, which):
    v = mk(reps, lead, cached)
    w = mk(reps, lead, False)
    before = runs_of(v)
    delete_item_in_vault(pos, v, None, "_m")
    exp = lookup(before, q) if q < pos else lookup(before, q + 1)
    c = Conj(v, exp, total(before) - 1, q, w, before)
    return done(c.pick(which))


# ---------------------------------------------------------------- set, no run crossing

def set_n1(r0: int, pos: int, rn: int, q: int, cached: bool, clone: bool) -> bool:
    """
    pre: 1 <= r0 and 1 <= rn and 0 <= pos < r0 and 0 <= q
    pre: pos + rn <= r0
    post: _
    """
    return _set([r0], pos, rn, q, LEAD, cached, clone, WHICH)


def set_n2(r0: int, r1: int, pos: int, rn: int, q: int, cached: bool, clone: bool) -> bool:
    """
    pre: 1 <= r0 and 1 <= r1 and 1 <= rn and 0 <= pos < r0 + r1 and 0 <= q
    pre: (pos + rn <= r0) or (r0 <= pos and pos + rn <= r0 + r1)
    post: _
    """
    return _set([r0, r1], pos, rn, q, LEAD, cached, clone, WHICH)


def set_n3(r0: int, r1: int, r2: int, pos: int, rn: int, q: int, cached: bool, clone: bool) -> bool:
    """
    pre: 1 <= r0 and 1 <= r1 and 1 <= r2 and 1 <= rn and 0 <= pos < r0 + r1 + r2 and 0 <= q
    pre: (pos + rn <= r0) or (r0 <= pos and pos + rn <= r0 + r1) or (r0 + r1 <= pos and pos + rn <= r0 + r1 + r2)
    post: _
    """
    return _set([r0, r1, r2], pos, rn, q, LEAD, cached, clone, WHICH)


def set_n4(r0: int, r1: int, r2: int, r3: int, pos: int, rn: int, q: int, cached: bool, clone: bool) -> bool:
    """
    pre: 1 <= r0 and 1 <= r1 and 1 <= r2 and 1 <= r3 and 1 <= rn and 0 <= pos < r0 + r1 + r2 + r3 and 0 <= q
    pre: (pos + rn <= r0) or (r0 <= pos and pos + rn <= r0 + r1) or (r0 + r1 <= pos and pos + rn <= r0 + r1 + r2) or (r0 + r1 + r2 <= pos and pos + rn <= r0 + r1 + r2 + r3)
    post: _
    """
    return _set([r0, r1, r2, r3], pos, rn, q, LEAD, cached, clone, WHICH)


# ---------------------------------------------------------------- set, crossing a run boundary

def set_cross_n2(r0: int, r1: int, pos: int, rn: int, q: int, cached: bool, clone: bool) -> bool:
    """
    pre: 1 <= r0 and 1 <= r1 and 1 <= rn and 0 <= pos < r0 + r1 and 0 <= q
    pre: (pos < r0 and pos + rn > r0) or (r0 <= pos and pos + rn > r0 + r1)
    post: _
    """
    return _set([r0, r1], pos, rn, q, LEAD, cached, clone, WHICH)


def set_cross_n3(r0: int, r1: int, r2: int, pos: int, rn: int, q: int, cached: bool, clone: bool) -> bool:
    """
    pre: 1 <= r0 and 1 <= r1 and 1 <= r2 and 1 <= rn and 0 <= pos < r0 + r1 + r2 and 0 <= q
    pre: (pos < r0 and pos + rn > r0) or (r0 <= pos < r0 + r1 and pos + rn > r0 + r1) or (r0 + r1 <= pos and pos + rn > r0 + r1 + r2)
    post: _
    """
    return _set([r0, r1, r2], pos, rn, q, LEAD, cached, clone, WHICH)


def set_cross_n4(r0: int, r1: int, r2: int, r3: int, pos: int, rn: int, q: int, cached: bool, clone: bool) -> bool:
    """
    pre: 1 <= r0 and 1 <= r1 and 1 <= r2 and 1 <= r3 and 1 <= rn and 0 <= pos < r0 + r1 + r2 + r3 and 0 <= q
    pre: (pos < r0 and pos + rn > r0) or (r0 <= pos < r0 + r1 and pos + rn > r0 + r1) or (r0 + r1 <= pos < r0 + r1 + r2 and pos + rn > r0 + r1 + r2) or (r0 + r1 + r2 <= pos and pos + rn > r0 + r1 + r2 + r3)
    post: _
    """
    return _set([r0, r1, r2, r3], pos, rn, q, LEAD, cached, clone, WHICH)


# ---------------------------------------------------------------- insert

def insert_n1(r0: int, pos: int, rn: int, q: int, cached: bool) -> bool:
    """
    pre: 1 <= r0 and 1 <= rn and 0 <= pos < r0 and 0 <= q
    post: _
    """
    return _insert([r0], pos, rn, q, LEAD, cached, WHICH)


def insert_n2(r0: int, r1: int, pos: int, rn: int, q: int, cached: bool) -> bool:
    """
    pre: 1 <= r0 and 1 <= r1 and 1 <= rn and 0 <= pos < r0 + r1 and 0 <= q
    post: _
    """
    return _insert([r0, r1], pos, rn, q, LEAD, cached, WHICH)


def insert_n3(r0: int, r1: int, r2: int, pos: int, rn: int, q: int, cached: bool) -> bool:
    """
    pre: 1 <= r0 and 1 <= r1 and 1 <= r2 and 1 <= rn and 0 <= pos < r0 + r1 + r2 and 0 <= q
    post: _
    """
    return _insert([r0, r1, r2], pos, rn, q, LEAD, cached, WHICH)


def insert_n4(r0: int, r1: int, r2: int, r3: int, pos: int, rn: int, q: int, cached: bool) -> bool:
    """
    pre: 1 <= r0 and 1 <= r1 and 1 <= r2 and 1 <= r3 and 1 <= rn and 0 <= pos < r0 + r1 + r2 + r3 and 0 <= q
    post: _
    """
    return _insert([r0, r1, r2, r3], pos, rn, q, LEAD, cached, WHICH)


# ---------------------------------------------------------------- delete

def delete_n1(r0: int, pos: int, q: int, cached: bool) -> bool:
    """
    pre: 1 <= r0 and 0 <= pos < r0 and 0 <= q
    post: _
    """
    return _delete([r0], pos, q, LEAD, cached, WHICH)


def delete_n2(r0: int, r1: int, pos: int, q: int, cached: bool) -> bool:
    """
    pre: 1 <= r0 and 1 <= r1 and 0 <= pos < r0 + r1 and 0 <= q
    post: _
    """
    return _delete([r0, r1], pos, q, LEAD, cached, WHICH)


def delete_n3(r0: int, r1: int, r2: int, pos: int, q: int, cached: bool) -> bool:
    """
    pre: 1 <= r0 and 1 <= r1 and 1 <= r2 and 0 <= pos < r0 + r1 + r2 and 0 <= q
    post: _
    """
    return _delete([r0, r1, r2], pos, q, LEAD, cached, WHICH)


def delete_n4(r0: int, r1: int, r2: int, r3: int, pos: int, q: int, cached: bool) -> bool:
    """
    pre: 1 <= r0 and 1 <= r1 and 1 <= r2 and 1 <= r3 and 0 <= pos < r0 + r1 + r2 + r3 and 0 <= q
    post: _
    """
    return _delete([r0, r1, r2, r3], pos, q, LEAD, cached, WHICH)


# ---------------------------------------------------------------- map primitives

def map_lookup_n3(r0: int, r1: int, r2: int, q: int) -> bool:
    """
    pre: 1 <= r0 and 1 <= r1 and 1 <= r2 and 0 <= q
    post: _
    """
    # make_cache_map + find_odf_idx implement run-length lookup: index of the run holding q
    m = make_cache_map([(0, r0), (1, r1), (2, r2)])
    idx = find_odf_idx(m, q)
    exp = lookup([(0, r0), (1, r1), (2, r2)], q)
    return done((idx if idx is not None else -1) == exp and m == [r0 - 1, r0 + r1 - 1, r0 + r1 + r2 - 1])


def map_insert_erase_n3(r0: int, r1: int, r2: int, k: int, rn: int) -> bool:
    """
    pre: 1 <= r0 and 1 <= r1 and 1 <= r2 and 1 <= rn and 0 <= k <= 3
    post: _
    """
    # insert_map_once at item index k then _erase_map_once at k is the identity, the input
    # list is not modified when k is not the end (C10: maps are handed out by reference),
    # and the inserted map equals the map of the list with the run inserted.
    m0 = make_cache_map([(0, r0), (1, r1), (2, r2)])
    keep = m0[:]
    m1 = insert_map_once(m0, k, rn)
    runs = [r0, r1, r2]
    runs.insert(k, rn)
    ok_ins = m1 == make_cache_map([(i, r) for i, r in enumerate(runs)])
    aliased = m1 is m0
    ok_frame = (m0 == keep) or (aliased and k == 3)
    m2 = _erase_map_once(m1, k)
    return done(ok_ins and ok_frame and m2 == keep and m2 is not m1)
