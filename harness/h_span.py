"""C17 A-level obligations: Table.set_span / del_span (with Cell.is_spanned, the real Row/Cell code)
on the lxml model.  3 x 3 table stored with run-length encoding: rows [A x r0, B x (3-r0)], each row
cells [v x c0, w x (3-c0)], r0, c0 in 1..2 (symbolic); the span area is symbolic inside the table.
Oracle: set_span covers exactly the requested area (top-left carries the span counts, every other
cell of the area is a covered cell, nothing outside is), never changes a value (merge=False),
refuses to overlap an existing span, and del_span restores the table (values, no covered cell, no
span attribute)."""
import os

import symsupport as S  # noqa: F401
from odfdo.cell import Cell
from odfdo.row import Row
from odfdo.table import Table
from vlib.hk import done

TN = "{urn:oasis:names:tc:opendocument:xmlns:table:1.0}"
D = int(os.environ.get("VERIF_DEPTH", "0"))  # thorough tier: deeper bounds (per process)
N = 3 + D   # the table is N x N


def mk(r0, c0):
    t = Table("t")
    for base, rep in ((10, r0), (20, N - r0)):
        row = Row()
        row.append_cell(Cell(base + 1, repeated=c0 if c0 > 1 else None), clone=False)
        row.append_cell(Cell(base + 2, repeated=(N - c0) if (N - c0) > 1 else None), clone=False)
        if rep > 1:
            row.repeated = rep
        t.append_row(row, clone=False)
    return t


def ref(r0, c0, x, y):
    base = 10 if y < r0 else 20
    return base + (1 if x < c0 else 2)


def grid(t):
    """independent expansion of the table's tree: [[(tag, value, cols-spanned, rows-spanned)]]"""
    out = []
    for r in t._Element__element._children:
        if r.tag != TN + "table-row":
            continue
        rr = r.attrib.get(TN + "number-rows-repeated")
        cells = []
        for c in r._children:
            cr = c.attrib.get(TN + "number-columns-repeated")
            v = c.attrib.get("{urn:oasis:names:tc:opendocument:xmlns:office:1.0}value")
            item = (c.tag.rpartition("}")[2], None if v is None else int(v),
                    c.attrib.get(TN + "number-columns-spanned"), c.attrib.get(TN + "number-rows-spanned"))
            cells += [item] * (1 if cr is None else int(cr))
        out += [cells] * (1 if rr is None else int(rr))
    return out


R0 = int(os.environ.get("VERIF_R0", "1"))  # run-length structure of the table, concrete per process
C0 = int(os.environ.get("VERIF_C0", "1"))


def span_area(x: int, y: int, z: int, t: int) -> bool:
    """
    pre: 0 <= x <= z <= N - 1 and 0 <= y <= t <= N - 1 and (x < z or y < t)
    post: _
    """
    r0, c0 = R0, C0
    tab = mk(r0, c0)
    g0 = grid(tab)
    done_ = tab.set_span((x, y, z, t))
    g1 = grid(tab)
    ok = done_ is True and tab.size == (N, N) and len(g1) == N
    for yy in range(N):
        ok = ok and len(g1[yy]) == N
        for xx in range(N):
            tag, val, cs, rs = g1[yy][xx]
            inside = x <= xx <= z and y <= yy <= t
            ok = ok and val == ref(r0, c0, xx, yy)  # merge=False never changes a value
            if xx == x and yy == y:
                ok = ok and tag == "table-cell" and cs == str(z - x + 1) and rs == str(t - y + 1)
            elif inside:
                ok = ok and tag == "covered-table-cell"
            else:
                ok = ok and tag == "table-cell" and cs is None and rs is None
    # a second span overlapping the first is refused and changes nothing
    again = tab.set_span((x, y, z, t))
    ok = ok and again is False and grid(tab) == g1
    # deleting the span restores the table
    back = tab.del_span((x, y))
    ok = ok and back is True and grid(tab) == g0
    return done(ok)
