"""C17 A-level obligations: Table.set_span / del_span (with Cell.is_spanned, the real Row/Cell code)
on the lxml model.  3 x 3 table stored with run-length encoding: rows [A x r0, B x (3-r0)], each row
cells [v x c0, w x (3-c0)], r0, c0 in 1..2 (symbolic); the span area is symbolic inside the table.
Oracle: set_span covers exactly the requested area (top-left carries the span counts, every other
cell of the area is a covered cell, nothing outside is), never changes a value (merge=False),
refuses to overlap an existing span, and del_span restores the table (values, no covered cell, no
span attribute)."""
import os

import symsupport as S  # noqa: F401
from odfdo.cell import Cell
from odfdo.row import Row
from odfdo.table import Table
from vlib.hk import done

TN = "{urn:oasis:names:tc:opendocument:xmlns:table:1.0}"
D = int(os.environ.get("VERIF_DEPTH", "0"))  # thorough tier: deeper bounds (per process)
N = 3 + D   # the table is N x N


def mk(r0, c0):
    t = Table("t")
    for base, rep in ((10, r0), (20, N - r0)):
        row = Row()
        row.append_cell(Cell(base + 1, repeated=c0 if c0 > 1 else None), clone=False)
        row.append_cell(Cell(base + 2, repeated=(N - c0) if (N - c0) > 1 else None), clone=False)
        if rep > 1:
            row.repeated = rep
        t.append_row(row, clone=False)
    return t


def ref(r0, c0, x, y):
    base = 10 if y < r0 else 20
    return base + (1 if x < c0 else 2)


def grid(t):
    """independent expansion of the table's tree: [[(tag, value, cols-spanned, rows-spanned)]]"""
    out = []
    for r in t._Element__element._children:
        if r.tag != TN + "table-row":
            continue
        rr = r.attrib.get(TN + "number-rows-repeated")
        cells = []
        for c in r._children:
            cr = c.attrib.get(TN + "number-columns-repeated")
            v = c.attrib.get("{urn:oasis:names:tc:opendocument:xmlns:office:1.0}value")
            item = (c.tag.rpartition("}")[2], None if v is None else int(v),
                    c.attrib.get(TN + "number-columns-spanned"), c.attrib.get(TN + "number-rows-spanned"))
            cells += [item] * (1 if cr is None else int(cr))
        out += [cells] * (1 if rr is None else int(rr))
    return out


R0 = int(os.environ.get("VERIF_R0", "1"))  # run-length structure of the table, concrete per process
C0 = int(os.environ.get("VERIF_C0", "1"))


def span_area(x: int, y: int, z: int, t: int) -> bool:
    """
    pre: 0 <= x <= z <= N - 1 and 0 <= y <= t <= N - 1 and (x < z or y < t)
    post: _
    """
    r0, c0 = R0, C0
    tab = mk(r0, c0)
    g0 = grid(tab)
    done_ = tab.set_span((x, y, z, t))
    g1 = grid(tab)
    ok = done_ is True and tab.size == (N, N) and len(g1) == N
    for yy in range(N):
        ok = ok and len(g1[yy]) == N
        for xx in range(N):
            tag, val, cs, rs = g1[yy][xx]
            inside = x <= xx <= z and y <= yy <= t
            ok = ok and val == ref(r0, c0, xx, yy)  # merge=False never changes a value
            if xx == x and yy == y:
                ok = ok and tag == "table-cell" and cs == str(z - x + 1) and rs == str(t - y + 1)
            elif inside:
                ok = ok and tag == "covered-table-cell"
            else:
                ok = ok and tag == "table-cell" and cs is None and rs is None
    # a second span overlapping the first is refused and changes nothing
    again = tab.set_span((x, y, z, t))
    ok = ok and again is False and grid(tab) == g1
    # deleting the span restores the table
    back = tab.del_span((x, y))
    ok = ok and back is True and grid(tab) == g0
    return done(ok)


# ---- CSV export: what is handed to the csv writer -----------------------------------------------
import odfdo.table as T_  # noqa: E402
from decimal import Decimal  # noqa: E402

CSV_VALUES = [0, False, "", " b ", None, Decimal("1.5"), 0.0]


def _pick(k):
    # (a chain of comparisons, so that each path runs on a concrete value: CrossHair's Decimal model fails on symbolic strings)
    for i, v in enumerate(CSV_VALUES):
        if k == i:
            return v
    return None
ROWS = []


class _Rec:
    """stands in for the csv module's writer (C code): records the rows it is given"""

    def __init__(self, *a, **k):
        pass

    def writerow(self, line):
        ROWS.append(list(line))


class _CsvStub:
    writer = _Rec
    QUOTE_NONNUMERIC = 2


K0 = int(os.environ.get("VERIF_K0", "0"))  # first value, concrete per process


def csv_rows(k1: int, rep: int, as_str: bool) -> bool:
    """
    pre: 0 <= k1 <= 6 and 1 <= rep <= 2
    post: _
    """
    k0 = K0
    # to_csv() / str(table) hand every value to the CSV writer as it is (None as the empty string,
    # strings stripped): 0, False and 0.0 are values, not blanks.  Table: [v0 x rep, v1] / [v2, (empty)]
    v0, v1 = _pick(k0), _pick(k1)
    v2 = v0
    t = Table("t")
    r = Row()
    r.append_cell(Cell(v0, repeated=rep if rep > 1 else None), clone=False)
    r.append_cell(Cell(v1), clone=False)
    t.append_row(r, clone=False)
    r2 = Row()
    r2.append_cell(Cell(v2), clone=False)
    t.append_row(r2, clone=False)
    del ROWS[:]
    saved = T_.csv
    T_.csv = _CsvStub
    try:
        if as_str:
            str(t)
        else:
            t.to_csv()
    finally:
        T_.csv = saved

    def w(v):
        if v is None:
            return ""
        return v.strip() if isinstance(v, str) else v

    def same(a, b):
        return type(a) is type(b) and a == b

    exp = [[w(v0)] * rep + [w(v1)], [w(v2)] + [""] * rep]
    ok = len(ROWS) == 2
    for got, want in zip(ROWS, exp):
        ok = ok and len(got) == len(want)
        for g, x in zip(got, want):
            # numbers come back from the cell as int or Decimal (0.0 -> 0): compare by value and bool-ness
            ok = ok and (g == x and isinstance(g, bool) == isinstance(x, bool) and isinstance(g, str) == isinstance(x, str))
    return done(ok)
