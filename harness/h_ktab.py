"""KT obligations, Table level: the real odfdo.table.Table methods (with row.py and
element_cached.py) on the typed-element layer.  Pre-state: a table of two row-runs x two
cell-runs

        rows 0 .. r0-1      :  [1 x c0, 2 x c1]
        rows r0 .. r0+r1-1  :  [3 x c0, 4 x c1]

built through the public API (append_row declares the columns), every repeat an unbounded
symbolic int >= 1.  Operation arguments and the probe (qx, qy) are unbounded symbolic ints;
partitions (by where the target falls) are separate obligations.  Symbolic booleans choose
whether cached reads (get_row / get_cell / get_value) run BEFORE the mutation, so stale
wrappers are a path condition the solver explores.
Conjunct sets by VERIF_WHICH (0 = all): 1 grid semantics, 2 live == fresh wrapper == independent
walk (maps too), 7 structure, 10 caller's argument untouched.
"""
import os

from ktable import Node, IntCell, IntColumn, KRow, KTable, wrap, x_value, x_total, snapshot, structure_ok
from vlib.hk import done

WHICH = int(os.environ.get("VERIF_WHICH", "0"))


def _cellnode(v, rep):
    return Node("cell", v, rep)


def _rownode(a, ca, b, cb, rep):
    n = Node("row", None, rep)
    for v, r in ((a, ca), (b, cb)):
        c = _cellnode(v, r)
        c.parent = n
        n.kids.append(c)
    return n


def mktab(r0, r1, c0, c1, pre_read=False, py=0):
    """arbitrary valid pre-state of the template, built directly as nodes (column declaration
    first, as append_row on an empty table produces it); the wrapper computes its maps from
    the nodes exactly like Table.__init__ on a parsed element (_compute_table_cache)"""
    tn = Node("table")
    col = Node("column", None, c0 + c1)
    for k in (col, _rownode(1, c0, 2, c1, r0), _rownode(3, c0, 4, c1, r1)):
        k.parent = tn
        tn.kids.append(k)
    t = KTable(_node=tn)
    if pre_read:
        # cached reads before the mutation: populate _indexes["_tmap"] with row wrappers and
        # their _indexes["_rmap"] with cell wrappers
        t.get_row(py, clone=False)
        t.get_value((0, py))
        t.get_cell((0, py), clone=False)
    return t


def ref(r0, r1, c0, c1, qx, qy):
    if qx < 0 or qy < 0 or qx >= c0 + c1 or qy >= r0 + r1:
        return None
    if qy < r0:
        return 1 if qx < c0 else 2
    return 3 if qx < c0 else 4


def judge(t, exp, exp_w, exp_h, qx, qy, arg=None, arg_snap=None):
    """conjuncts are evaluated lazily: only those selected by VERIF_WHICH cost solver time"""
    n = t._n
    ok = True
    if WHICH in (0, 1):
        live = t.get_value((qx, qy))
        ok = ok and live == exp and t.width == exp_w and t.height == exp_h
        ok = ok and x_value(n, qx, qy) == exp and x_total(n, "row") == exp_h and x_total(n, "column") == exp_w
    if WHICH in (0, 2):
        live = t.get_value((qx, qy))
        f = wrap(n)
        ok = ok and t._tmap == f._tmap and t._cmap == f._cmap and f.get_value((qx, qy)) == live and live == x_value(n, qx, qy)
        if qy < t.height:
            lr = t.get_row(qy, clone=False)
            ok = ok and lr._rmap == wrap(lr._n)._rmap
    if WHICH in (0, 7):
        ok = ok and structure_ok(n) and t.height == x_total(n, "row") and t.width == x_total(n, "column")
    if WHICH in (0, 10) and arg is not None:
        ok = ok and snapshot(arg._n) == arg_snap and arg._n.parent is None
    return done(ok)


# ----------------------------------------------------------------- cell-addressed operations

def _set_cell(r0, r1, c0, c1, x, y, rn, qx, qy, pre_read, clone):
    t = mktab(r0, r1, c0, c1, pre_read, min(y, r0 + r1 - 1))
    cell = IntCell(9, rn)
    snap = snapshot(cell._n)
    t.set_cell((x, y), cell, clone=clone)
    if qy == y and x <= qx < x + rn:
        exp = 9
    else:
        exp = ref(r0, r1, c0, c1, qx, qy)
    return judge(t, exp, max(c0 + c1, x + rn), max(r0 + r1, y + 1), qx, qy, cell if clone else None, snap)


def _set_value(r0, r1, c0, c1, x, y, v, qx, qy, pre_read):
    t = mktab(r0, r1, c0, c1, pre_read, min(y, r0 + r1 - 1))
    t.set_value((x, y), v)
    exp = v if (qx == x and qy == y) else ref(r0, r1, c0, c1, qx, qy)
    return judge(t, exp, max(c0 + c1, x + 1), max(r0 + r1, y + 1), qx, qy)


def _insert_cell(r0, r1, c0, c1, x, y, rn, qx, qy, pre_read, clone):
    t = mktab(r0, r1, c0, c1, pre_read, min(y, r0 + r1 - 1))
    cell = IntCell(9, rn)
    snap = snapshot(cell._n)
    t.insert_cell((x, y), cell, clone=clone)
    w = c0 + c1
    h = r0 + r1
    if qy != y:
        exp = ref(r0, r1, c0, c1, qx, qy)
    elif x <= qx < x + rn:
        exp = 9
    elif qx < x:
        exp = ref(r0, r1, c0, c1, qx, qy)
    else:
        exp = ref(r0, r1, c0, c1, qx - rn, qy)
    rw = (max(w, x) if y < h else x) + rn  # width of the edited row afterwards
    return judge(t, exp, max(w, rw), max(h, y + 1), qx, qy, cell if clone else None, snap)


def _append_cell(r0, r1, c0, c1, y, rn, qx, qy, pre_read, clone):
    t = mktab(r0, r1, c0, c1, pre_read, y)
    cell = IntCell(9, rn)
    snap = snapshot(cell._n)
    t.append_cell(y, cell, clone=clone)
    w = c0 + c1
    exp = 9 if (qy == y and w <= qx < w + rn) else ref(r0, r1, c0, c1, qx, qy)
    return judge(t, exp, w + rn, r0 + r1, qx, qy, cell if clone else None, snap)


def _delete_cell(r0, r1, c0, c1, x, y, qx, qy, pre_read):
    t = mktab(r0, r1, c0, c1, pre_read, min(y, r0 + r1 - 1))
    t.delete_cell((x, y))
    w = c0 + c1
    if qy == y and y < r0 + r1 and x < w and qx >= x:
        exp = ref(r0, r1, c0, c1, qx + 1, qy)
    else:
        exp = ref(r0, r1, c0, c1, qx, qy)
    return judge(t, exp, w, r0 + r1, qx, qy)


# ----------------------------------------------------------------- row-addressed operations

def mkrow2(a, b, ca, cb, rr):
    row = KRow()
    row.append_cell(IntCell(a, ca), clone=False)
    row.append_cell(IntCell(b, cb), clone=False)
    if rr > 1:
        row.repeated = rr
    return row


def rowref(ca, cb, qx):
    if qx < ca:
        return 8
    if qx < ca + cb:
        return 9
    return None


def _set_row(r0, r1, c0, c1, y, ca, rr, qx, qy, pre_read, clone):
    cb = 1
    t = mktab(r0, r1, c0, c1, pre_read, min(y, r0 + r1 - 1))
    row = mkrow2(8, 9, ca, cb, rr)
    snap = snapshot(row._n)
    t.set_row(y, row, clone=clone)
    exp = rowref(ca, cb, qx) if y <= qy < y + rr else ref(r0, r1, c0, c1, qx, qy)
    return judge(t, exp, max(c0 + c1, ca + cb), max(r0 + r1, y + rr), qx, qy, row if clone else None, snap)


def _insert_row(r0, r1, c0, c1, y, ca, rr, qx, qy, pre_read):
    cb = 1
    t = mktab(r0, r1, c0, c1, pre_read, min(y, r0 + r1 - 1))
    row = mkrow2(8, 9, ca, cb, rr)
    snap = snapshot(row._n)
    t.insert_row(y, row)
    h = r0 + r1
    if y <= qy < y + rr:
        exp = rowref(ca, cb, qx)
    elif qy < y:
        exp = ref(r0, r1, c0, c1, qx, qy)
    else:
        exp = ref(r0, r1, c0, c1, qx, qy - rr)
    return judge(t, exp, max(c0 + c1, ca + cb), max(h, y) + rr, qx, qy, row, snap)


def _append_row(r0, r1, c0, c1, ca, rr, qx, qy, clone):
    cb = 1
    t = mktab(r0, r1, c0, c1)
    row = mkrow2(8, 9, ca, cb, rr)
    snap = snapshot(row._n)
    t.append_row(row, clone=clone)
    h = r0 + r1
    exp = rowref(ca, cb, qx) if h <= qy < h + rr else ref(r0, r1, c0, c1, qx, qy)
    return judge(t, exp, max(c0 + c1, ca + cb), h + rr, qx, qy, row if clone else None, snap)


def _delete_row(r0, r1, c0, c1, y, qx, qy, pre_read):
    t = mktab(r0, r1, c0, c1, pre_read, min(y, r0 + r1 - 1))
    t.delete_row(y)
    h = r0 + r1
    if y >= h:
        exp = ref(r0, r1, c0, c1, qx, qy)
        eh = h
    else:
        exp = ref(r0, r1, c0, c1, qx, qy) if qy < y else ref(r0, r1, c0, c1, qx, qy + 1)
        eh = h - 1
    return judge(t, exp, c0 + c1, eh, qx, qy)


def _set_row_values(r0, r1, c0, c1, y, qx, qy, pre_read):
    # set_row_values(y, [8, 9]) overwrites the first two cells of row y only
    t = mktab(r0, r1, c0, c1, pre_read, y)
    t.set_row_values(y, [8, 9])
    w = c0 + c1
    if qy == y and qx == 0:
        exp = 8
    elif qy == y and qx == 1:
        exp = 9
    elif qy == y:
        exp = None  # "set the values of *all* cells of the row"
    else:
        exp = ref(r0, r1, c0, c1, qx, qy)
    return judge(t, exp, max(w, 2), r0 + r1, qx, qy)


# ----------------------------------------------------------------- column operations

def _insert_column(r0, r1, c0, c1, x, cr, qx, qy, pre_read, py):
    t = mktab(r0, r1, c0, c1, pre_read, py)
    col = IntColumn(repeated=cr)
    t.insert_column(x, col)
    w = c0 + c1
    if qx < x:
        exp = ref(r0, r1, c0, c1, qx, qy)
    elif qx < x + cr:
        exp = None
    else:
        exp = ref(r0, r1, c0, c1, qx - cr, qy)
    return judge(t, exp, max(w, x) + cr, r0 + r1, qx, qy)


def _append_column(r0, r1, c0, c1, cr, qx, qy):
    t = mktab(r0, r1, c0, c1)
    t.append_column(IntColumn(repeated=cr))
    return judge(t, ref(r0, r1, c0, c1, qx, qy), c0 + c1 + cr, r0 + r1, qx, qy)


def _delete_column(r0, r1, c0, c1, x, qx, qy, pre_read, py):
    t = mktab(r0, r1, c0, c1, pre_read, py)
    t.delete_column(x)
    w = c0 + c1
    if x >= w:
        exp = ref(r0, r1, c0, c1, qx, qy)
        ew = w
    else:
        exp = ref(r0, r1, c0, c1, qx, qy) if qx < x else ref(r0, r1, c0, c1, qx + 1, qy)
        ew = w - 1
    return judge(t, exp, ew, r0 + r1, qx, qy)


# ----------------------------------------------------------------- ragged tables (rows shorter than the declared columns)

def mkragged(w0, w1, r1, ncols):
    """row 0: one run of w0 cells (value 1); rows 1..r1: one run of w1 cells (value 2); ncols declared columns"""
    tn = Node("table")
    col = Node("column", None, ncols)
    col.parent = tn
    tn.kids.append(col)
    for val, width, rep in ((1, w0, 1), (2, w1, r1)):
        rn = Node("row", None, rep)
        c = _cellnode(val, width)
        c.parent = rn
        rn.kids.append(c)
        rn.parent = tn
        tn.kids.append(rn)
    return KTable(_node=tn)


def ragged_ref(w0, w1, r1, qx, qy):
    if qy == 0:
        return 1 if 0 <= qx < w0 else None
    if 1 <= qy <= r1:
        return 2 if 0 <= qx < w1 else None
    return None


def kt_ragged_delete_column(w0: int, w1: int, r1: int, extra: int, x: int, qx: int, qy: int) -> bool:
    """
    pre: 1 <= w0 and 1 <= w1 and 1 <= r1 and 0 <= extra and 0 <= x and 0 <= qx and 0 <= qy
    post: _
    """
    # a column deletion shifts every row alike, also rows shorter than the declared width
    ncols = (w0 if w0 > w1 else w1) + extra
    t = mkragged(w0, w1, r1, ncols)
    t.delete_column(x)
    if x >= ncols:
        exp = ragged_ref(w0, w1, r1, qx, qy)
        ew = ncols
    else:
        exp = ragged_ref(w0, w1, r1, qx, qy) if qx < x else ragged_ref(w0, w1, r1, qx + 1, qy)
        ew = ncols - 1
    return judge(t, exp, ew, 1 + r1, qx, qy)


def kt_ragged_insert_column(w0: int, w1: int, r1: int, extra: int, x: int, qx: int, qy: int) -> bool:
    """
    pre: 1 <= w0 and 1 <= w1 and 1 <= r1 and 0 <= extra and 0 <= x and 0 <= qx and 0 <= qy
    post: _
    """
    ncols = (w0 if w0 > w1 else w1) + extra
    t = mkragged(w0, w1, r1, ncols)
    t.insert_column(x)
    if qx < x:
        exp = ragged_ref(w0, w1, r1, qx, qy)
    elif qx == x:
        exp = None
    else:
        exp = ragged_ref(w0, w1, r1, qx - 1, qy)
    return judge(t, exp, (ncols if ncols > x else x) + 1, 1 + r1, qx, qy)


# ----------------------------------------------------------------- bulk set (Table.set_values / set_cells)
BULK_CELLS = os.environ.get("VERIF_BULK", "values") == "cells"


TPL = tuple(int(v) for v in os.environ.get("VERIF_TPL", "1,1,1,1").split(","))  # run lengths of the template, concrete per process


def kt_bulk_set(x: int, y: int, gap: bool, qx: int, qy: int) -> bool:
    """
    pre: 0 <= x <= 2 and 0 <= y <= 4 and 0 <= qx <= 4 and 0 <= qy <= 7
    post: _
    """
    r0, r1, c0, c1 = TPL
    # set_values / set_cells with the matrix [[7, 8], [5] or [] (an empty sub-list leaves its row alone), [6]]
    # at (x, y): each sub-list lands in ITS row, every other cell keeps its value
    t = mktab(r0, r1, c0, c1, True, 0)
    if BULK_CELLS:
        m = [[IntCell(7), IntCell(8)], [] if gap else [IntCell(5)], [IntCell(6)]]
        t.set_cells(m, (x, y))
    else:
        m = [[7, 8], [] if gap else [5], [6]]
        t.set_values(m, (x, y))
    if qy == y and qx == x:
        exp = 7
    elif qy == y and qx == x + 1:
        exp = 8
    elif qy == y + 1 and qx == x and not gap:
        exp = 5
    elif qy == y + 2 and qx == x:
        exp = 6
    else:
        exp = ref(r0, r1, c0, c1, qx, qy)
    w, h = c0 + c1, r0 + r1
    return judge(t, exp, max(w, x + 2), max(h, y + 3), qx, qy)


# ----------------------------------------------------------------- tables without rows or without columns
def _empty_judge(t, exp_fn, ew, eh, qx, qy):
    n = t._n
    exp = exp_fn(qx, qy)
    f = wrap(n)
    ok = t.get_value((qx, qy)) == exp and x_value(n, qx, qy) == exp
    ok = ok and t.width == ew and t.height == eh and x_total(n, "row") == eh and x_total(n, "column") == ew
    ok = ok and t._tmap == f._tmap and t._cmap == f._cmap and structure_ok(n)
    return done(ok)


EOP = int(os.environ.get("VERIF_EOP", "0"))  # which first write (concrete per process)


def kt_empty_first_write(x: int, y: int, ca: int, rr: int, qx: int, qy: int) -> bool:
    """
    pre: 0 <= x <= 3 and 0 <= y <= 3 and 0 <= ca <= 2 and 1 <= rr <= 2 and 0 <= qx <= 5 and 0 <= qy <= 5
    post: _
    """
    op = EOP
    # a table created without width/height (no row, no column declaration): the first write declares the
    # columns it needs, in front of the rows; size, maps and values agree with the XML read afresh
    t = KTable()
    if op == 0:
        t.set_value((x, y), 9)
        return _empty_judge(t, lambda a, b: 9 if (a == x and b == y) else None, x + 1, y + 1, qx, qy)
    if op == 1:
        t.set_cell((x, y), IntCell(9, rr))
        return _empty_judge(t, lambda a, b: 9 if (b == y and x <= a < x + rr) else None, x + rr, y + 1, qx, qy)
    row = KRow()
    if ca > 0:
        row.append_cell(IntCell(8, ca), clone=False)
    if rr > 1:
        row.repeated = rr
    if op == 2:
        t.append_row(row)  # possibly a row without cells
        t.set_value((x, y), 9)
        return _empty_judge(t, lambda a, b: 9 if (a == x and b == y) else (8 if (b < rr and a < ca) else None),
                            max(ca, x + 1, 1), max(rr, y + 1), qx, qy)
    t.set_row(y, row)
    t.append_column(IntColumn(1))
    w = max(ca, 1) + 1
    return _empty_judge(t, lambda a, b: 8 if (y <= b < y + rr and a < ca) else None, w, y + rr, qx, qy)


def kt_no_columns(r0: int, r1: int, op: int, x: int, qx: int, qy: int) -> bool:
    """
    pre: 1 <= r0 <= 2 and 1 <= r1 <= 2 and 0 <= op <= 3 and 0 <= x <= 2 and 0 <= qx <= 4 and 0 <= qy <= 4
    post: _
    """
    # a table that has rows but no column left (every column deleted): whatever adds a column again puts
    # the declaration in front of the rows
    t = mktab(r0, r1, 1, 1, True, 0)
    t.delete_column(0)
    t.delete_column(0)
    h = r0 + r1
    if t.width != 0 or t.height != h:
        return done(False)
    if op == 0:
        t.set_value((x, 0), 9)
        return _empty_judge(t, lambda a, b: 9 if (a == x and b == 0) else None, x + 1, h, qx, qy)
    if op == 1:
        t.append_column(IntColumn(1))
        return _empty_judge(t, lambda a, b: None, 1, h, qx, qy)
    if op == 2:
        t.insert_column(x, IntColumn(1))
        return _empty_judge(t, lambda a, b: None, x + 1, h, qx, qy)
    t.set_column(x, IntColumn(1))
    return _empty_judge(t, lambda a, b: None, x + 1, h, qx, qy)
