"""C16 (and the read-only half for C15) A-level obligations: the real Element.replace / search /
search_first / search_all / match / text_at on the lxml model.  Tree: <p>t0<span>t1</span>t2</p>
with symbolic t0, t1 (short strings over {a, b}) and a concrete tail; the pattern comes from a
concrete family that cannot match the empty string (selected per process).  The regular-expression
engine (CrossHair's model of `re`) is the same on both sides: the subject is odfdo's node iteration
and write-back, not `re`."""
import os
import re

import lxml.etree as ET
import symsupport as S
from odfdo.element import Element
from odfdo.paragraph import Paragraph
from vlib.hk import done

PATTERNS = ["a", "ab", "a+", "[ab]", "b$", "^a", "a|bb"]
PAT = PATTERNS[int(os.environ.get("VERIF_PAT", "0"))]
TAIL = "ab"


def mk(t0, t1):
    p = ET.Element(S.TXT + "p")
    p.text = t0
    sp = ET.Element(S.TXT + "span")
    sp.text = t1
    sp.tail = TAIL
    p.append(sp)
    return Element.from_tag(p), p, sp


def repl_count(t0: str, t1: str, formatted: bool) -> bool:
    """
    pre: len(t0) <= 2 and len(t1) <= 2 and all(c in "ab" for c in t0 + t1)
    post: _
    """
    # count-only (with or without the formatted flag): number of non-overlapping matches within the
    # individual text runs; nothing changes
    e, p, sp = mk(t0, t1)
    before = S.canon(p)
    n = e.replace(PAT, formatted=formatted)
    exp = len(re.findall(PAT, t0)) + len(re.findall(PAT, t1)) + len(re.findall(PAT, TAIL))
    return done(n == exp and S.canon(p) == before and e.replace(PAT) == exp)


def repl_sub(t0: str, t1: str, new: str) -> bool:
    """
    pre: len(t0) <= 2 and len(t1) <= 2 and all(c in "ab" for c in t0 + t1) and len(new) <= 1 and all(c in "x " for c in new)
    post: _
    """
    # replacement changes the matches inside each run and nothing else: markup and neighbours stay
    e, p, sp = mk(t0, t1)
    n = e.replace(PAT, new)
    e0, n0 = re.subn(PAT, new, t0)
    e1, n1 = re.subn(PAT, new, t1)
    e2, n2 = re.subn(PAT, new, TAIL)
    ok = n == n0 + n1 + n2
    ok = ok and (p.text or "") == e0 and (sp.text or "") == e1 and (sp.tail or "") == e2
    ok = ok and len(p._children) == 1 and p._children[0] is sp and len(sp._children) == 0 and sp.tag == S.TXT + "span"
    return done(ok)


def search_pos(t0: str, t1: str) -> bool:
    """
    pre: len(t0) <= 2 and len(t1) <= 2 and all(c in "ab" for c in t0 + t1)
    post: _
    """
    # search positions index the element's own text (the concatenation of its runs); reads change nothing
    e, p, sp = mk(t0, t1)
    before = S.canon(p)
    flat = t0 + t1 + TAIL
    ok = e.text_recursive == flat and e.inner_text == flat
    pos = e.search(PAT)
    m = re.search(PAT, flat)
    ok = ok and ((pos is None) == (m is None)) and (pos is None or pos == m.start())
    first = e.search_first(PAT)
    ok = ok and ((first is None) == (m is None)) and (first is None or first == (m.start(), m.end()))
    allm = e.search_all(PAT)
    ok = ok and allm == [(x.start(), x.end()) for x in re.finditer(PAT, flat)]
    ok = ok and e.match(PAT) == (m is not None)
    return done(ok and S.canon(p) == before)


def search_after_edit(t0: str, t1: str, in_span: bool) -> bool:
    """
    pre: len(t0) <= 2 and len(t1) <= 2 and all(c in "ab" for c in t0 + t1)
    post: _
    """
    # a search made AFTER an edit of the element (through the same wrapper object that was searched
    # before) indexes the text as it is now: nothing of an earlier search may be served again
    e, p, sp = mk(t0, t1)
    e.search_all(PAT)
    e.text_at(0)
    if in_span:
        Element.from_tag(sp).text = "ba"   # text of a nested element
        flat = t0 + "ba" + TAIL
    else:
        Element.from_tag(sp).tail = "b" + TAIL  # tail of a child
        flat = t0 + t1 + "b" + TAIL
    ok = e.search_all(PAT) == [(x.start(), x.end()) for x in re.finditer(PAT, flat)]
    return done(ok and e.text_at(0) == flat)


def text_at_pos(t0: str, t1: str, start: int, end: int) -> bool:
    """
    pre: len(t0) <= 2 and len(t1) <= 2 and all(c in "ab" for c in t0 + t1) and -2 <= start <= 7 and -2 <= end <= 7
    post: _
    """
    e, p, sp = mk(t0, t1)
    flat = t0 + t1 + TAIL
    s = max(start, 0)
    ok = e.text_at(start) == flat[s:]
    ok = ok and e.text_at(start, end) == flat[s:max(end, s)]
    return done(ok)


def repl_formatted(t: str) -> bool:
    """
    pre: len(t) <= 3 and all(c in "a x" for c in t)
    post: _
    """
    # formatted=True: after replacing 'x' by NEW the paragraph is encoded as a freshly created one
    # (white-space normal form) and reads as the replaced text
    new = os.environ.get("VERIF_NEW", "")
    p = Paragraph(t)
    exp = re.sub("x", new, t)
    p.replace("x", new, formatted=True)
    node = p._Element__element
    return done(S.plain_text(node) == exp and S.collapse_tree(node) == exp)


def repl_formatted_tree(t0: str, t1: str) -> bool:
    """
    pre: len(t0) <= 2 and len(t1) <= 2 and all(c in "a x" for c in t0 + t1)
    post: _
    """
    # formatted=True on a paragraph that already holds a span with a tail: every run is replaced,
    # nothing is duplicated or lost, and the paragraph and the span are in normal form
    from odfdo.paragraph import Span
    new = os.environ.get("VERIF_NEW", "")
    p = Paragraph(t0)
    sp = Span(t1)
    p.append(sp)
    sp.tail = "xb"
    n = p.replace("x", new, formatted=True)
    exp = re.sub("x", new, t0) + re.sub("x", new, t1) + re.sub("x", new, "xb")
    cnt = len(re.findall("x", t0)) + len(re.findall("x", t1)) + 1
    node = p._Element__element
    return done(n == cnt and S.plain_text(node) == exp and S.collapse_tree(node) == exp)


def count_pure_ws(t: str) -> bool:
    """
    pre: len(t) <= 3 and all(c in "a \t" for c in t)
    post: _
    """
    # counting with formatted=True on raw text holding tabs / runs of spaces must not re-encode it
    p = ET.Element(S.TXT + "p")
    p.text = t
    e = Element.from_tag(p)
    before = S.canon(p)
    n1 = e.replace("a", formatted=True)
    n2 = e.replace("a", formatted=True)
    return done(S.canon(p) == before and n1 == n2 == len(re.findall("a", t)))
