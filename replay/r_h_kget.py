"""Replays of h_kget counterexamples through the public Table API on real lxml."""
from odfdo import Cell, Column, Row, Table
from odfdo.utils.coordinates import digit_to_alpha

import rlib
from r_h_ktab import mktab, ref


def _state(t):
    return t.serialize(), t._tmap[:], t._cmap[:]


def _same(t, st):
    return t.serialize() == st[0] and t._tmap == st[1] and t._cmap == st[2]


def _poke_cell(c):
    c.set_value(99)
    c.repeated = 7
    c.append(Cell(98))


def kget_cell(r0, r1, c0, c1, x, y, clone, keep, qx, qy, **kw):
    t = mktab(r0, r1, c0, c1)
    st = _state(t)
    cell = t.get_cell((x, y), clone=clone, keep_repeated=keep)
    ok = cell.x == x and cell.y == y and cell.get_value() == ref(r0, r1, c0, c1, x, y)
    if clone and not keep:
        ok = ok and cell.repeated is None
    msg = f"ok={ok}"
    if clone or y >= r0 + r1:
        pure = _same(t, st)
        _poke_cell(cell)
        det = t.serialize() == st[0] and t.get_value((qx, qy)) == ref(r0, r1, c0, c1, qx, qy)
        ok = ok and pure and det and t.width == c0 + c1 and t.height == r0 + r1
        msg += f" pure={pure} detached={det}"
    return (not ok), msg


def kget_cell_beyond_width(r0, r1, c0, c1, x, y, qx, qy, **kw):
    t = mktab(r0, r1, c0, c1)
    st = _state(t)
    cell = t.get_cell((x, y))
    ok = cell is not None and cell.x == x and cell.y == y and cell.get_value() is None
    _poke_cell(cell)
    ok = ok and t.serialize() == st[0] and t.width == c0 + c1 and t.get_value((qx, qy)) == ref(r0, r1, c0, c1, qx, qy)
    return (not ok), f"beyond-width read at ({x},{y})"


def kget_row(r0, r1, c0, c1, y, clone, qx, qy, **kw):
    t = mktab(r0, r1, c0, c1)
    st = _state(t)
    row = t.get_row(y, clone=clone)
    ok = row.y == y and row.get_value(qx) == ref(r0, r1, c0, c1, qx, y) and row.width == (c0 + c1 if y < r0 + r1 else 0)
    pure = _same(t, st)
    det = True
    if clone or y >= r0 + r1:
        row.repeated = 5
        row.append_cell(Cell(98))
        if row.width > 1:
            row.set_value(0, 97)
        det = t.serialize() == st[0] and t.get_value((qx, qy)) == ref(r0, r1, c0, c1, qx, qy) and t.height == r0 + r1
    return (not (ok and pure and det)), f"ok={ok} pure={pure} detached={det}"


def kget_value_forms(r0, r1, c0, c1, x, y, **kw):
    t = mktab(r0, r1, c0, c1)
    s = digit_to_alpha(x) + str(y + 1)
    exp = ref(r0, r1, c0, c1, x, y)
    got = [t.get_value(s), t.get_value((x, y)), t.get_value((x, y, x + 1, y + 1))]
    c = t.get_cell(s)
    ok = all(g == exp for g in got) and c.x == x and c.y == y and c.get_value() == exp
    if x < c0 + c1 and y < r0 + r1:
        neg = t.get_value((x - (c0 + c1), y - (r0 + r1)))
        ok = ok and neg == exp
        got.append(neg)
    return (not ok), f"{s}: expected {exp!r}, forms gave {got}, cell stamped ({c.x},{c.y})"


def _rows_small(r0, r1, c0, c1, start, end, k, qx, only_live):
    t = mktab(r0, r1, c0, c1)
    h = r0 + r1
    st = _state(t)
    rows = list(t.traverse(start, end))
    exp_n = max(0, min(end, h - 1) - start + 1)
    ok = len(rows) == exp_n and len(t.get_rows((start, end))) == exp_n and len(t.rows) == h
    pure = _same(t, st)
    det = True
    if k < len(rows):
        r = rows[k]
        y = start + k
        ok = ok and r.y == y and r.repeated is None and r.get_value(qx) == ref(r0, r1, c0, c1, qx, y)
        stored = r0 if y < r0 else r1
        if (stored == 1) == only_live:
            r.append_cell(Cell(98))
            r.set_value(0, 97)
            det = t.serialize() == st[0]
    return (not (ok and pure and det)), f"n={len(rows)} expected {exp_n}; ok={ok} pure={pure} detached={det}"


def kget_rows_small(r0, r1, c0, c1, start, end, k, qx, **kw):
    return _rows_small(r0, r1, c0, c1, start, end, k, qx, False)


def kget_rows_small_live(r0, r1, c0, c1, start, end, k, qx, **kw):
    return _rows_small(r0, r1, c0, c1, start, end, k, qx, True)


def _cells_small(r0, r1, c0, c1, x, y, z, tt, i, j):
    t = mktab(r0, r1, c0, c1)
    w, h = c0 + c1, r0 + r1
    st = _state(t)
    cells = t.get_cells((x, y, z, tt))
    vals = t.get_values((x, y, z, tt))
    nrows = max(0, min(tt, h - 1) - y + 1)
    ncols = max(0, min(z, w - 1) - x + 1)
    ok = len(cells) == nrows and len(vals) == nrows
    pure = _same(t, st)
    det = True
    if j < nrows:
        ok = ok and len(cells[j]) == ncols and len(vals[j]) == ncols
        if i < ncols:
            c = cells[j][i]
            e = ref(r0, r1, c0, c1, x + i, y + j)
            ok = ok and c.x == x + i and c.y == y + j and c.repeated is None and c.get_value() == e and vals[j][i] == e
            _poke_cell(c)
            det = t.serialize() == st[0]
    return (not (ok and pure and det)), f"area ({x},{y},{z},{tt}): {len(cells)} rows expected {nrows}; ok={ok} pure={pure} detached={det}"


def kget_cells_small_cols(c0, c1, x, z, tt, i, j, **kw):
    return _cells_small(1, 1, c0, c1, x, 0, z, tt, i, j)


def kget_cells_small_rows(r0, r1, y, z, tt, i, j, **kw):
    return _cells_small(r0, r1, 1, 1, 0, y, z, tt, i, j)


def kget_column_small(r0, r1, c0, c1, x, k, **kw):
    t = mktab(r0, r1, c0, c1)
    w, h = c0 + c1, r0 + r1
    st = _state(t)
    cells = t.get_column_cells(x)
    vals = t.get_column_values(x)
    cols = t.columns
    col = t.get_column(x)
    ok = len(cells) == h and len(vals) == h and len(cols) == w and col.x == x
    pure = _same(t, st)
    det = True
    if k < h:
        c = cells[k]
        e = ref(r0, r1, c0, c1, x, k)
        ok = ok and c is not None and c.x == x and c.y == k and c.get_value() == e and vals[k] == e
        _poke_cell(c)
        det = t.serialize() == st[0]
    if k < w:
        ok = ok and cols[k].x == k and cols[k].repeated is None
        cols[k].repeated = 9
        col.repeated = 9
        det = det and t.serialize() == st[0]
    return (not (ok and pure and det)), f"column {x}: ok={ok} pure={pure} detached={det}"


def kget_values_small(r0, r1, c0, c1, i, j, **kw):
    t = mktab(r0, r1, c0, c1)
    w, h = c0 + c1, r0 + r1
    st = _state(t)
    m = t.get_values()
    it = list(t.iter_values())
    flat = t.get_values(flat=True)
    cc = t.cells
    ok = len(m) == h and len(it) == h and len(flat) == w * h and len(cc) == h and t.size == (w, h)
    if j < h and i < w:
        e = ref(r0, r1, c0, c1, i, j)
        ok = ok and len(m[j]) == w and m[j][i] == e and it[j][i] == e and flat[j * w + i] == e
        ok = ok and cc[j][i].x == i and cc[j][i].y == j and cc[j][i].get_value() == e
    return (not (ok and _same(t, st))), f"matrix {m}"


def ktrans_twice_small(r0, r1, c0, c1, qx, qy, **kw):
    t = mktab(r0, r1, c0, c1)
    t.transpose()
    a = t.get_value((qy, qx))
    s1 = t.size
    t.transpose()
    b = t.get_value((qx, qy))
    e = ref(r0, r1, c0, c1, qx, qy)
    ok = a == e and s1 == (r0 + r1, c0 + c1) and b == e and t.size == (c0 + c1, r0 + r1) and rlib.xml_table_value(t, qx, qy) == e
    return (not ok), f"transpose: ({qx},{qy}) expected {e!r}; after one {a!r} size {s1}; after two {b!r} size {t.size}"


def krstrip(r0, r1, c0, c1, e_rows, e_cols, styled, aggressive, qx, qy, **kw):
    def cells(a, b):
        out = [(a, c0), (b, c1)]
        return out

    t = Table("t")
    for (a, b), rep in (((1, 2), r0), ((3, 4), r1)):
        row = rlib.mk_row(cells(a, b))
        if e_cols:
            row.append_cell(Cell(None, repeated=e_cols if e_cols > 1 else None, style="ce1" if styled else None), clone=False)
        if rep > 1:
            row.repeated = rep
        t.append_row(row, clone=False)
    if e_rows:
        row = Row()
        row.append_cell(Cell(None, repeated=c0 + c1 + e_cols), clone=False)
        if e_rows > 1:
            row.repeated = e_rows
        t.append_row(row, clone=False)
    t.rstrip(aggressive=aggressive)
    keep = e_cols if (styled and not aggressive and e_cols > 0) else 0
    ew, eh = c0 + c1 + keep, r0 + r1
    e = ref(r0, r1, c0, c1, qx, qy)
    ok = t.get_value((qx, qy)) == e and t.height == eh and t.width == ew and rlib.xml_table_height(t) == eh and rlib.xml_table_value(t, qx, qy) == e
    xml = t.serialize()
    t.rstrip(aggressive=aggressive)
    idem = t.serialize() == xml and t.height == eh and t.width == ew
    return (not (ok and idem)), f"rstrip: size {t.width}x{t.height} expected {ew}x{eh}; value {t.get_value((qx, qy))!r} expected {e!r}; idempotent {idem}"


def _norm(v, n):
    return v + n if v < 0 else v


def kget_area_negative_rows(r0, r1, y, tt, z, j, x=0, **kw):
    t = mktab(r0, r1, 1, 1)
    h, w = r0 + r1, 2
    a = t.get_values((x, y, z, tt))
    nn = (_norm(x, w), _norm(y, h), _norm(z, w), _norm(tt, h))
    b = t.get_values(nn)
    ca = t.get_cells((x, y, z, tt))
    ra = t.get_rows((x, y, z, tt))
    ok = a == b and len(ca) == len(b) and (j >= len(b) or len(ca[j]) == len(b[j])) and len(ra) == len(b) and (j >= len(ra) or ra[j].y == nn[1] + j)
    return (not ok), f"area {(x, y, z, tt)} -> {a} but {nn} -> {b}; get_cells {len(ca)} rows, get_rows {len(ra)} rows"


def kget_area_negative_cols(c0, c1, x, z, i, **kw):
    t = mktab(1, 1, c0, c1)
    w = c0 + c1
    a = t.get_values((x, 0, z, -1))
    b = t.get_values((_norm(x, w), 0, _norm(z, w), 1))
    cols = t.get_columns((x, z))
    colsb = t.get_columns((_norm(x, w), _norm(z, w)))
    ok = a == b and len(cols) == len(colsb) and (i >= len(cols) or cols[i].x == colsb[i].x)
    return (not ok), f"columns {(x, z)}: {a} vs {b}; get_columns {len(cols)} vs {len(colsb)}"


def kget_columns_range_small(c0, c1, x, z, i, four, **kw):
    t = mktab(1, 1, c0, c1)
    w = c0 + c1
    cols = t.get_columns((x, 0, z, 1)) if four else t.get_columns((x, z))
    exp_n = max(0, min(z, w - 1) - x + 1)
    ok = len(cols) == exp_n and (i >= len(cols) or (cols[i].x == x + i and cols[i].repeated is None))
    return (not ok), f"get_columns({(x, 0, z, 1) if four else (x, z)}) on width {w}: columns {[c.x for c in cols]}, expected {list(range(x, x + exp_n))}"


def _trailing(r0, r1, c0, c1, e_rows, e_cols, styled=False):
    t = Table("t")
    for (a, b), rep in (((1, 2), r0), ((3, 4), r1)):
        row = rlib.mk_row([(a, c0), (b, c1)])
        if e_cols:
            row.append_cell(Cell(None, repeated=e_cols if e_cols > 1 else None, style="ce1" if styled else None), clone=False)
        if rep > 1:
            row.repeated = rep
        t.append_row(row, clone=False)
    if e_rows:
        row = Row()
        row.append_cell(Cell(None, repeated=c0 + c1 + e_cols), clone=False)
        if e_rows > 1:
            row.repeated = e_rows
        t.append_row(row, clone=False)
    return t


def koptimize(r0, r1, c0, c1, e_rows, e_cols, qx, qy, **kw):
    t = _trailing(r0, r1, c0, c1, e_rows, e_cols)
    t.optimize_width()
    ew = c0 + c1 + (1 if e_cols > 0 else 0)
    eh = r0 + r1 + (1 if e_rows > 0 else 0)
    e = ref(r0, r1, c0, c1, qx, qy)
    ok = t.get_value((qx, qy)) == e and rlib.xml_table_value(t, qx, qy) == e and t.height == eh and t.width == ew
    f = rlib.fresh(t)
    ok = ok and t._tmap == f._tmap and t._cmap == f._cmap
    xml = t.serialize()
    t.optimize_width()
    return (not (ok and t.serialize() == xml)), f"optimize_width: live maps {t._tmap}/{t._cmap}, of the XML read afresh {f._tmap}/{f._cmap}; size {t.width}x{t.height} expected {ew}x{eh}; value at ({qx},{qy}) {t.get_value((qx, qy))!r} expected {e!r}; idempotent {t.serialize() == xml}"


def krstrip_styled_rows(r0, c0, e_rows, aggressive, qx, qy, **kw):
    t = Table("t")
    row = Row()
    row.append_cell(Cell(5, repeated=c0 if c0 > 1 else None), clone=False)
    if r0 > 1:
        row.repeated = r0
    t.append_row(row, clone=False)
    row = Row()
    row.append_cell(Cell(None, repeated=c0 if c0 > 1 else None, style="ce1"), clone=False)
    if e_rows > 1:
        row.repeated = e_rows
    t.append_row(row, clone=False)
    t.rstrip(aggressive=aggressive)
    eh = r0 if aggressive else r0 + e_rows
    exp = 5 if (qx < c0 and qy < r0) else None
    ok = t.height == eh and rlib.xml_table_height(t) == eh and t.get_value((qx, qy)) == exp and t.width == c0
    xml = t.serialize()
    t.rstrip(aggressive=aggressive)
    return (not (ok and t.serialize() == xml)), f"rstrip(aggressive={aggressive}): height {t.height} (XML {rlib.xml_table_height(t)}) expected {eh}; idempotent {t.serialize() == xml}"


def ktrans_ragged(w0, w1, rep, qx, qy, **kw):
    t = Table("t")
    for val, width, r in ((1, w0, 1), (2, w1, rep)):
        row = Row()
        row.append_cell(Cell(val, repeated=width if width > 1 else None), clone=False)
        if r > 1:
            row.repeated = r
        t.append_row(row, clone=False)

    def orig(x, y):
        if y == 0:
            return 1 if x < w0 else None
        if y <= rep:
            return 2 if x < w1 else None
        return None

    try:
        t.transpose()
        a = t.get_value((qy, qx))
        t.transpose()
        b = t.get_value((qx, qy))
    except Exception as e:  # noqa: BLE001
        return True, f"transpose of a ragged table (row widths {w0}, {w1}) raised {e!r}"
    return (a != orig(qx, qy) or b != orig(qx, qy)), f"({qx},{qy}) = {orig(qx, qy)!r}: after one transpose {a!r} at ({qy},{qx}), after two {b!r}"


def kget_empty_table(x, y, **kw):
    t = Table("t")
    try:
        c = t.get_cell((x, y))
        v = t.get_value((x, y))
        r = t.get_row(y)
        row = Row()
        rc = row.get_cell(x)
        rv = row.get_value(x)
    except Exception as e:  # noqa: BLE001
        return True, f"reading ({x},{y}) in an empty table/row raised {e!r}"
    ok = c.get_value() is None and v is None and r.width == 0 and t.size == (0, 0) and rc.get_value() is None and rv is None and row.width == 0
    return (not ok), f"empty table read at ({x},{y}): cell {c.get_value()!r}, value {v!r}, row width {r.width}, table size {t.size}"
