"""Replay of h_manifest counterexamples on a real text document: the same history through the public
API, then save to a zip and check the written manifest against the written package."""
import io
import zipfile

from odfdo import Document
from odfdo.document import Blob

NAMES = ["a.png", "b.png"]


def _consistent(doc):
    listed = [str(p) for p in doc.manifest.get_paths()]
    present = []
    for p in doc.container.parts:
        if p in ("mimetype", "META-INF/manifest.xml") or p.endswith("/"):
            continue
        try:
            doc.container.get_part(p)  # raises for a part marked as deleted
        except ValueError:
            continue
        present.append(p)
    dup = [p for p in set(listed) if listed.count(p) != 1]
    missing = [p for p in present if p not in listed]
    absent = [p for p in listed if p != "/" and not p.endswith("/") and p not in present]
    root = doc.manifest.get_media_type("/")
    return (not dup and not missing and not absent and root == doc.mimetype), f"listed twice {dup}; present but unlisted {missing}; listed but absent {absent}; root entry media type {root!r}"


def manifest_history3(i2, op3, i3, op1=0, op2=0, **kw):
    return manifest_history(op2, i2, op3, i3, op1=op1)


def manifest_history4(i2, op3, i3, op4, i4, op1=0, op2=0, **kw):
    return manifest_history(op2, i2, op3, i3, op1=op1, more=((op4, i4),))


def manifest_history(op2, i2, op3, i3, op1=0, i1=0, more=(), **kw):
    doc = Document("text")
    doc.set_part("layout-cache", b"cache")
    doc.manifest.add_full_path("layout-cache", "application/binary")
    notes = []
    for op, i in ((op1, i1), (op2, i2), (op3, i3)) + tuple(more):
        name = NAMES[i]
        path = "Pictures/" + name
        if op == 0:
            b = Blob()
            b.name, b.content, b.mime_type = name, b"data", "image/png"
            doc._add_binary_part(b)
        elif op == 1:
            if path in doc.container.parts:
                doc.del_part(path)
        elif op == 2:
            doc.manifest.add_full_path(path, "image/png")
            doc.container.set_part(path, b"data")
        elif op == 4:
            if "layout-cache" in doc.container.parts:
                try:
                    doc.container.get_part("layout-cache")
                    doc.del_part("layout-cache")
                except ValueError:
                    pass
        else:
            if doc.manifest.get_media_type(path) is not None:
                doc.manifest.set_media_type(path, "image/x")
        ok, msg = _consistent(doc)
        if not ok:
            notes.append(f"after step ({op},{name}): {msg}")
    c = doc.clone
    ok, msg = _consistent(c)
    if not ok:
        notes.append(f"clone taken after the history: {msg}")
    ok, msg = _consistent(doc)
    if not ok:
        notes.append(f"original after cloning: {msg}")
    buf = io.BytesIO()
    doc.save(buf)
    z = zipfile.ZipFile(io.BytesIO(buf.getvalue()))
    names = z.namelist()
    again = Document(io.BytesIO(buf.getvalue()))
    listed = [str(p) for p in again.manifest.get_paths()]
    files = [n for n in names if not n.endswith("/") and n not in ("mimetype", "META-INF/manifest.xml")]
    if names[0] != "mimetype" or z.getinfo("mimetype").compress_type != 0 or len(names) != len(set(names)):
        notes.append("zip layout broken")
    for p in files:
        if listed.count(p) != 1:
            notes.append(f"saved file {p} listed {listed.count(p)} times")
    for p in listed:
        if p != "/" and not p.endswith("/") and p not in files:
            notes.append(f"manifest lists absent {p}")
    return bool(notes), "; ".join(notes) or "consistent after every step and in the saved package"


def merge_images(twice, fill, master, already, **kw):
    from odfdo import Element
    dest, other = Document("text"), Document("text")
    if fill:
        other.styles.get_element("//office:styles").append(Element.from_tag('<draw:fill-image draw:name="F" xlink:href="Pictures/f.png"/>'))
        other.set_part("Pictures/f.png", b"fill")
        other.manifest.add_full_path("Pictures/f.png", "image/png")
    if master:
        other.styles.get_element("//office:master-styles").append(Element.from_tag(
            '<style:master-page style:name="M"><style:header><text:p><draw:frame><draw:image xlink:href="Pictures/m.png"/></draw:frame></text:p></style:header></style:master-page>'))
        other.set_part("Pictures/m.png", b"master")
        other.manifest.add_full_path("Pictures/m.png", "image/png")
    if already:
        dest.set_part("Pictures/f.png", b"old")
        dest.manifest.add_full_path("Pictures/f.png", "image/png")
    dest.merge_styles_from(other)
    if twice:
        dest.merge_styles_from(other)
    notes = []
    for label, doc in (("dest", dest), ("other", other)):
        ok, msg = _consistent(doc)
        if not ok:
            notes.append(f"{label}: {msg}")
    if fill and dest.get_part("Pictures/f.png") != b"fill":
        notes.append("fill image not copied")
    if master and dest.get_part("Pictures/m.png") != b"master":
        notes.append("master page image not copied")
    return bool(notes), "; ".join(notes) or "consistent"
