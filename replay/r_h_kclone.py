"""Replays of h_kclone counterexamples on real lxml (real Row.clone / Element.clone)."""
from odfdo import Cell, Row, Table

import rlib
from r_h_ktab import mktab, ref


def kclone_row_from_traverse(r0, r1, k, n, qy, **kw):
    c0 = c1 = 1
    t = mktab(r0, r1, c0, c1)
    row = t.rows[k]
    c = row.clone
    born = c.serialize() == row.serialize() and c.y == row.y and c._rmap == row._rmap and c.width == row.width
    xml, tmap, cmap = t.serialize(), t._tmap[:], t._cmap[:]
    t2 = Table("t2")
    t2.append_row(c, clone=False)
    c.repeated = n
    c.set_cell(0, Cell(9))
    f = rlib.fresh(t)
    same = (t.serialize() == xml and t._tmap == tmap and t._cmap == cmap and t._tmap == f._tmap and t._cmap == f._cmap
            and t.height == r0 + r1 and t.width == 2 and t.get_value((1, qy)) == ref(r0, r1, c0, c1, 1, qy))
    return (not (born and same)), f"born equal {born}; source table untouched {same}: height {t.height} (XML {rlib.xml_table_height(t)}), _tmap {t._tmap} fresh {f._tmap}"


def kclone_row_original_edit(c0, c1, x, rn, q, **kw):
    row = rlib.mk_row([(1, c0), (2, c1)])
    row.y = 3
    c = row.clone
    xml, rmap = c.serialize(), c._rmap[:]
    row.set_cell(x, Cell(9, repeated=rn if rn > 1 else None))
    row.insert_cell(0, Cell(8))
    exp = 1 if q < c0 else (2 if q < c0 + c1 else None)
    ok = c.serialize() == xml and c._rmap == rmap and c._rmap == rlib.fresh(c)._rmap and c.get_value(q) == exp and c.width == c0 + c1 and c.y == 3
    return (not ok), f"clone after editing the original: {c.serialize()} _rmap {c._rmap}"


def kclone_table(r0, r1, x, y, on_clone, qx, **kw):
    c0 = c1 = 1
    t = mktab(r0, r1, c0, c1, True, 0)
    xml = t.serialize()
    c = t.clone
    born = c.serialize() == xml and t.serialize() == xml and c._tmap == t._tmap and c._cmap == t._cmap and c.size == t.size
    a, b = (c, t) if on_clone else (t, c)
    a.set_cell((x, y), Cell(9))
    fb = rlib.fresh(b)
    indep = (b.serialize() == xml and b._tmap == fb._tmap and b._cmap == fb._cmap and b.size == (2, r0 + r1)
             and b.get_value((qx, y)) == ref(r0, r1, c0, c1, qx, y))
    return (not (born and indep and a.get_value((x, y)) == 9)), f"born equal {born}; other twin untouched {indep}"
