"""Replays of h_seg counterexamples through the public Paragraph API on real lxml.

A segment-string tree with text-node lengths l0.. becomes a real paragraph whose text nodes hold
that many distinct characters; set_span(style, offset, length) / set_bookmark(position=...) are the
public entry points of the code the harness executes."""
from odfdo import Element, Paragraph

MAXLEN = 5000


def _txt(origin, n):
    # distinct characters per origin so that misplaced text is visible
    base = {"A": "abcdefghij", "B": "KLMNOPQRST", "C": "0123456789", "D": "uvwxyz", "E": "UVWXYZ"}[origin]
    return "".join(base[i % len(base)] for i in range(n))


def build(kind, l0, l1, l2, l3=0, l4=0):
    for n in (l0, l1, l2, l3, l4):
        if n > MAXLEN:
            raise ValueError("length too large for a concrete replay")
    p = Element.from_tag("text:p")
    p.text = _txt("A", l0)
    if kind == "A":
        sp = Element.from_tag("text:span")
        sp.text = _txt("B", l1)
        p._Element__element.append(sp._Element__element)
        sp.tail = _txt("C", l2)
    elif kind == "B":
        sp = Element.from_tag("text:span")
        sp.text = _txt("B", l1)
        a = Element.from_tag("text:span")
        a.text = _txt("C", l2)
        p._Element__element.append(sp._Element__element)
        p._Element__element.append(a._Element__element)
        a.tail = _txt("D", l3)
    else:
        sp = Element.from_tag("text:span")
        sp.text = _txt("B", l1)
        i = Element.from_tag("text:span")
        i.text = _txt("C", l2)
        sp._Element__element.append(i._Element__element)
        i.tail = _txt("D", l3)
        p._Element__element.append(sp._Element__element)
        sp.tail = _txt("E", l4)
    return Element.from_tag(p.serialize(with_ns=True))


def _spans(p):
    return [s for s in p.get_elements("descendant::text:span") if s.get_attribute("text:style-name") == "NEW"]


def preserve(kind, offset, length, l0, l1, l2, l3=0, l4=0, **kw):
    p = build(kind, l0, l1, l2, l3, l4)
    before = p.inner_text
    n_before = len(p.get_elements("descendant::*"))
    p.set_span("NEW", offset=offset, length=length)
    after = p.inner_text
    ok = after == before
    if offset >= len(before):
        ok = ok and len(p.get_elements("descendant::*")) == n_before
    return (not ok), f"{kind}: set_span(offset={offset}, length={length}) on {before!r} -> {after!r}: {p.serialize()}"


def exact(kind, offset, length, l0, l1, l2, l3=0, l4=0, inside=True, **kw):
    p = build(kind, l0, l1, l2, l3, l4)
    before = p.inner_text
    lens = {"A": [l0, l1, l2], "B": [l0, l1, l2, l3], "C": [l0, l1, l2, l3, l4]}[kind]
    acc = 0
    node_end = None
    for ln in lens:
        if offset < acc + ln:
            node_end = acc + ln
            break
        acc += ln
    if node_end is None or (offset + length > node_end) != (not inside):
        return False, "outside the obligation's region"
    p.set_span("NEW", offset=offset, length=length)
    new = _spans(p)
    want = before[offset:offset + length]
    got = new[0].inner_text if new else None
    return (got != want or p.inner_text != before), f"{kind}: set_span(offset={offset}, length={length}) on {before!r} wrapped {got!r}, designated {want!r}: {p.serialize()}"


def insert(kind, pos, l0, l1, l2, l3=0, l4=0, main_text=False, **kw):
    p = build(kind, l0, l1, l2, l3, l4)
    before = p.inner_text
    mark = Element.from_tag("text:bookmark")
    mark.set_attribute("text:name", "MARK")
    p._insert(mark, position=pos, main_text=main_text)
    xml = p.serialize()
    # characters before the mark in document order
    head = xml.split("<text:bookmark")[0]
    import re
    chars_before = len(re.sub(r"<[^>]*>", "", head))
    ok = p.inner_text == before and chars_before == pos
    return (not ok), f"{kind}: _insert(position={pos}) on {before!r}: mark after {chars_before} characters, text {p.inner_text!r}: {xml}"


def insert_end(l0, l1, l2, **kw):
    p = build("A", l0, l1, l2)
    before = p.inner_text
    mark = Element.from_tag("text:bookmark")
    p._insert(mark, position=-1)
    xml = p.serialize()
    import re
    chars_before = len(re.sub(r"<[^>]*>", "", xml.split("<text:bookmark")[0]))
    return (p.inner_text != before or chars_before != len(before)), f"_insert(position=-1): {xml}"
