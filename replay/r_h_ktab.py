"""Replays of h_ktab counterexamples: the same Table operation through the public API on real lxml.

kwargs carry the template's symbolic repeats (missing ones are the template's constant 1), the
operation arguments, the probe, plus `op`, `which`, `pre_read` from the obligation's `extra`.
"""
from odfdo import Cell, Column, Row, Table

import rlib


def _tpl(kw):
    return kw.get("r0", 1), kw.get("r1", 1), kw.get("c0", 1), kw.get("c1", 1)


def mktab(r0, r1, c0, c1, pre_read=False, py=0):
    t = rlib.mk_table([([(1, c0), (2, c1)], r0), ([(3, c0), (4, c1)], r1)])
    if pre_read:
        t.get_row(py, clone=False)
        t.get_value((0, py))
        t.get_cell((0, py), clone=False)
    return t


def ref(r0, r1, c0, c1, qx, qy):
    if qx < 0 or qy < 0 or qx >= c0 + c1 or qy >= r0 + r1:
        return None
    if qy < r0:
        return 1 if qx < c0 else 2
    return 3 if qx < c0 else 4


def judge(t, exp, ew, eh, qx, qy, which, c10=True, note=""):
    live = t.get_value((qx, qy))
    xv = rlib.xml_table_value(t, qx, qy)
    xh, xw = rlib.xml_table_height(t), rlib.xml_table_width(t)
    c01 = live == exp and t.width == ew and t.height == eh and xv == exp and xh == eh and xw == ew
    f = rlib.fresh(t)
    c02 = t._tmap == f._tmap and t._cmap == f._cmap and f.get_value((qx, qy)) == live == xv
    if qy < t.height:
        lr = t.get_row(qy, clone=False)
        c02 = c02 and lr._rmap == rlib.fresh(lr)._rmap
    sv, smsg = rlib.structure_valid(t)
    c07 = sv
    pick = {0: c01 and c02 and c07 and c10, 1: c01, 2: c02, 7: c07, 10: c10}[which]
    return (not pick), (f"probe ({qx},{qy}): expected {exp!r} size {ew}x{eh}; live {live!r} size {t.width}x{t.height}; "
                        f"XML {xv!r} size {xw}x{xh}; fresh {f.get_value((qx, qy))!r}; _tmap {t._tmap}/{f._tmap} _cmap {t._cmap}/{f._cmap}; "
                        f"structure {smsg or 'ok'}; arg untouched {c10} {note}")


def _cell(v, rn):
    return Cell(v, repeated=rn if rn > 1 else None)


def _row2(ca, rr):
    row = Row()
    row.append_cell(_cell(8, ca), clone=False)
    row.append_cell(Cell(9), clone=False)
    if rr > 1:
        row.repeated = rr
    return row


def rowref(ca, qx):
    if qx < ca:
        return 8
    if qx < ca + 1:
        return 9
    return None


def _untouched(arg, xml):
    return arg.serialize() == xml and (arg.parent is None or arg.parent.tag == "office:document")


def run(op, which=0, pre_read=False, **kw):
    r0, r1, c0, c1 = _tpl(kw)
    W, H = c0 + c1, r0 + r1
    qx, qy = kw["qx"], kw["qy"]
    R = lambda a, b: ref(r0, r1, c0, c1, a, b)  # noqa: E731
    clone = kw.get("clone", True)
    if op == "set_cell":
        x, y, rn = kw["x"], kw["y"], kw["rn"]
        t = mktab(r0, r1, c0, c1, pre_read, min(y, H - 1))
        cell = _cell(9, rn)
        xml = cell.serialize()
        t.set_cell((x, y), cell, clone=clone)
        exp = 9 if (qy == y and x <= qx < x + rn) else R(qx, qy)
        return judge(t, exp, max(W, x + rn), max(H, y + 1), qx, qy, which, _untouched(cell, xml) if clone else True)
    if op == "set_value":
        x, y, v = kw["x"], kw["y"], kw["v"]
        t = mktab(r0, r1, c0, c1, pre_read, min(y, H - 1))
        t.set_value((x, y), v)
        exp = v if (qx == x and qy == y) else R(qx, qy)
        return judge(t, exp, max(W, x + 1), max(H, y + 1), qx, qy, which)
    if op == "insert_cell":
        x, y, rn = kw["x"], kw["y"], kw["rn"]
        t = mktab(r0, r1, c0, c1, pre_read, min(y, H - 1))
        cell = _cell(9, rn)
        xml = cell.serialize()
        t.insert_cell((x, y), cell, clone=clone)
        if qy != y:
            exp = R(qx, qy)
        elif x <= qx < x + rn:
            exp = 9
        elif qx < x:
            exp = R(qx, qy)
        else:
            exp = R(qx - rn, qy)
        rw = (max(W, x) if y < H else x) + rn
        return judge(t, exp, max(W, rw), max(H, y + 1), qx, qy, which, _untouched(cell, xml) if clone else True)
    if op == "append_cell":
        y, rn = kw["y"], kw["rn"]
        t = mktab(r0, r1, c0, c1, pre_read, y)
        cell = _cell(9, rn)
        xml = cell.serialize()
        t.append_cell(y, cell, clone=clone)
        exp = 9 if (qy == y and W <= qx < W + rn) else R(qx, qy)
        return judge(t, exp, W + rn, H, qx, qy, which, _untouched(cell, xml) if clone else True)
    if op == "delete_cell":
        x, y = kw["x"], kw["y"]
        t = mktab(r0, r1, c0, c1, pre_read, min(y, H - 1))
        t.delete_cell((x, y))
        exp = R(qx + 1, qy) if (qy == y and y < H and x < W and qx >= x) else R(qx, qy)
        return judge(t, exp, W, H, qx, qy, which)
    if op == "set_row":
        y, ca, rr = kw["y"], kw["ca"], kw["rr"]
        t = mktab(r0, r1, c0, c1, pre_read, min(y, H - 1))
        row = _row2(ca, rr)
        xml = row.serialize()
        t.set_row(y, row, clone=clone)
        exp = rowref(ca, qx) if y <= qy < y + rr else R(qx, qy)
        return judge(t, exp, max(W, ca + 1), max(H, y + rr), qx, qy, which, _untouched(row, xml) if clone else True)
    if op == "insert_row":
        y, ca, rr = kw["y"], kw["ca"], kw["rr"]
        t = mktab(r0, r1, c0, c1, pre_read, min(y, H - 1))
        row = _row2(ca, rr)
        xml = row.serialize()
        t.insert_row(y, row)
        if y <= qy < y + rr:
            exp = rowref(ca, qx)
        elif qy < y:
            exp = R(qx, qy)
        else:
            exp = R(qx, qy - rr)
        return judge(t, exp, max(W, ca + 1), max(H, y) + rr, qx, qy, which, _untouched(row, xml))
    if op == "append_row":
        ca, rr = kw["ca"], kw["rr"]
        t = mktab(r0, r1, c0, c1)
        row = _row2(ca, rr)
        xml = row.serialize()
        t.append_row(row, clone=clone)
        exp = rowref(ca, qx) if H <= qy < H + rr else R(qx, qy)
        return judge(t, exp, max(W, ca + 1), H + rr, qx, qy, which, _untouched(row, xml) if clone else True)
    if op == "delete_row":
        y = kw["y"]
        t = mktab(r0, r1, c0, c1, pre_read, min(y, H - 1))
        t.delete_row(y)
        if y >= H:
            return judge(t, R(qx, qy), W, H, qx, qy, which)
        return judge(t, R(qx, qy) if qy < y else R(qx, qy + 1), W, H - 1, qx, qy, which)
    if op == "set_row_values":
        y = kw["y"]
        t = mktab(r0, r1, c0, c1, pre_read, y)
        t.set_row_values(y, [8, 9])
        if qy == y:
            exp = 8 if qx == 0 else (9 if qx == 1 else None)
        else:
            exp = R(qx, qy)
        return judge(t, exp, max(W, 2), H, qx, qy, which)
    if op == "insert_column":
        x, cr = kw["x"], kw["cr"]
        t = mktab(r0, r1, c0, c1, pre_read, kw["py"])
        t.insert_column(x, Column(repeated=cr if cr > 1 else None))
        if qx < x:
            exp = R(qx, qy)
        elif qx < x + cr:
            exp = None
        else:
            exp = R(qx - cr, qy)
        return judge(t, exp, max(W, x) + cr, H, qx, qy, which)
    if op == "append_column":
        cr = kw["cr"]
        t = mktab(r0, r1, c0, c1)
        t.append_column(Column(repeated=cr if cr > 1 else None))
        return judge(t, R(qx, qy), W + cr, H, qx, qy, which)
    if op == "delete_column":
        x = kw["x"]
        t = mktab(r0, r1, c0, c1, pre_read, kw["py"])
        t.delete_column(x)
        if x >= W:
            return judge(t, R(qx, qy), W, H, qx, qy, which)
        return judge(t, R(qx, qy) if qx < x else R(qx + 1, qy), W - 1, H, qx, qy, which)
    raise ValueError(op)


def _ragged(w0, w1, r1, ncols):
    t = Table("t")
    for val, width, rep in ((1, w0, 1), (2, w1, r1)):
        row = Row()
        row.append_cell(_cell(val, width), clone=False)
        if rep > 1:
            row.repeated = rep
        t.append_row(row, clone=False)
    extra = ncols - t.width
    if extra > 0:
        t.append_column(Column(repeated=extra if extra > 1 else None))
    return t


def _rref(w0, w1, r1, qx, qy):
    if qy == 0:
        return 1 if 0 <= qx < w0 else None
    if 1 <= qy <= r1:
        return 2 if 0 <= qx < w1 else None
    return None


def ragged(op, w0, w1, r1, extra, x, qx, qy, which=0, **kw):
    ncols = max(w0, w1) + extra
    t = _ragged(w0, w1, r1, ncols)
    if op == "delete_column":
        t.delete_column(x)
        if x >= ncols:
            return judge(t, _rref(w0, w1, r1, qx, qy), ncols, 1 + r1, qx, qy, which)
        return judge(t, _rref(w0, w1, r1, qx, qy) if qx < x else _rref(w0, w1, r1, qx + 1, qy), ncols - 1, 1 + r1, qx, qy, which)
    t.insert_column(x)
    exp = _rref(w0, w1, r1, qx, qy) if qx < x else (None if qx == x else _rref(w0, w1, r1, qx - 1, qy))
    return judge(t, exp, max(ncols, x) + 1, 1 + r1, qx, qy, which)


def bulk(x, y, gap, qx, qy, tpl=(1, 1, 1, 1), mode="values", which=0, **kw):
    r0, r1, c0, c1 = tpl
    t = mktab(r0, r1, c0, c1, True, 0)
    if mode == "cells":
        t.set_cells([[Cell(7), Cell(8)], [] if gap else [Cell(5)], [Cell(6)]], (x, y))
    else:
        t.set_values([[7, 8], [] if gap else [5], [6]], (x, y))
    if qy == y and qx == x:
        exp = 7
    elif qy == y and qx == x + 1:
        exp = 8
    elif qy == y + 1 and qx == x and not gap:
        exp = 5
    elif qy == y + 2 and qx == x:
        exp = 6
    else:
        exp = ref(r0, r1, c0, c1, qx, qy)
    return judge(t, exp, max(c0 + c1, x + 2), max(r0 + r1, y + 3), qx, qy, which)


def _empty_judge(t, exp_fn, ew, eh, qx, qy):
    exp = exp_fn(qx, qy)
    f = rlib.fresh(t)
    sv, smsg = rlib.structure_valid(t)
    ok = (t.get_value((qx, qy)) == exp and rlib.xml_table_value(t, qx, qy) == exp and t.width == ew and t.height == eh
          and rlib.xml_table_height(t) == eh and rlib.xml_table_width(t) == ew and t._tmap == f._tmap and t._cmap == f._cmap and sv)
    return (not ok), (f"probe ({qx},{qy}) expected {exp!r} size {ew}x{eh}; live {t.get_value((qx, qy))!r} {t.width}x{t.height}; XML {rlib.xml_table_value(t, qx, qy)!r} "
                      f"{rlib.xml_table_width(t)}x{rlib.xml_table_height(t)}; maps {t._tmap}/{f._tmap} {t._cmap}/{f._cmap}; structure {smsg or 'ok'}: {t.serialize()}")


def empty_first_write(x, y, ca, rr, qx, qy, op=0, **kw):
    t = Table("t")
    if op == 0:
        t.set_value((x, y), 9)
        return _empty_judge(t, lambda a, b: 9 if (a == x and b == y) else None, x + 1, y + 1, qx, qy)
    if op == 1:
        t.set_cell((x, y), _cell(9, rr))
        return _empty_judge(t, lambda a, b: 9 if (b == y and x <= a < x + rr) else None, x + rr, y + 1, qx, qy)
    row = Row()
    if ca > 0:
        row.append_cell(_cell(8, ca), clone=False)
    if rr > 1:
        row.repeated = rr
    if op == 2:
        t.append_row(row)
        t.set_value((x, y), 9)
        return _empty_judge(t, lambda a, b: 9 if (a == x and b == y) else (8 if (b < rr and a < ca) else None), max(ca, x + 1, 1), max(rr, y + 1), qx, qy)
    t.set_row(y, row)
    t.append_column(Column())
    return _empty_judge(t, lambda a, b: 8 if (y <= b < y + rr and a < ca) else None, max(ca, 1) + 1, y + rr, qx, qy)


def no_columns(r0, r1, op, x, qx, qy, **kw):
    t = mktab(r0, r1, 1, 1, True, 0)
    t.delete_column(0)
    t.delete_column(0)
    h = r0 + r1
    if op == 0:
        t.set_value((x, 0), 9)
        return _empty_judge(t, lambda a, b: 9 if (a == x and b == 0) else None, x + 1, h, qx, qy)
    if op == 1:
        t.append_column(Column())
        return _empty_judge(t, lambda a, b: None, 1, h, qx, qy)
    if op == 2:
        t.insert_column(x, Column())
        return _empty_judge(t, lambda a, b: None, x + 1, h, qx, qy)
    t.set_column(x, Column())
    return _empty_judge(t, lambda a, b: None, x + 1, h, qx, qy)
