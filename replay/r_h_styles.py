"""Replays of h_styles counterexamples on a real text document (real lxml, real container)."""
from odfdo import Document, Style

EXISTING = ["", "x", "odfdo_auto_7", "odfdo_auto_x", "odfdo_auto_"]


def _mk(family, name):
    if family == "font-face":
        return Style(family, font_name=name)  # a font-face style is named after its font
    return Style(family, name=name)


def _expected(doc, family, automatic, default):
    if family == "master-page":
        return doc.styles.get_element("//office:master-styles")
    if family == "page-layout":
        return doc.styles.get_element("//office:automatic-styles")
    if family == "font-face":
        return (doc.styles if default else doc.content).get_element("//office:font-face-decls")
    if automatic:
        return doc.content.get_element("//office:automatic-styles")
    return doc.styles.get_element("//office:styles")


def _inside(container, style):
    node = style._Element__element
    return any(ch._Element__element is node for ch in container.children)


def _count(container, family, name):
    return sum(1 for ch in container.children if ch.get_attribute("style:name") == name and (ch.get_attribute("style:family") or family) == family and ch.tag != "style:default-style")


def insert_named(n1, n2, automatic, family="paragraph", **kw):
    doc = Document("text")
    st1, st2 = _mk(family, "vx" + n1), _mk(family, "vx" + n2)
    r1 = doc.insert_style(st1, automatic=automatic)
    r2 = doc.insert_style(st2, automatic=automatic)
    cont = _expected(doc, family, automatic, False)
    ok = r1 == "vx" + n1 and r2 == "vx" + n2 and _inside(cont, st2) and _count(cont, family, r2) == 1
    g2 = doc.get_style(family, r2)
    ok = ok and g2 is not None and g2._Element__element is st2._Element__element
    g1 = doc.get_style(family, r1)
    if n1 == n2:
        ok = ok and not _inside(cont, st1)
    else:
        ok = ok and _inside(cont, st1) and g1 is not None and g1._Element__element is st1._Element__element
    return (not ok), f"insert_style x2 ({family}, {r1!r}, {r2!r}, automatic={automatic}): container {cont.tag} holds {_count(cont, family, r2)} style(s) named {r2!r}; lookup gives the inserted node: {g2 is not None and g2._Element__element is st2._Element__element}"


def insert_default(n1, family="paragraph", **kw):
    doc = Document("text")
    st1 = _mk(family, n1) if n1 else Style(family)
    st2 = Style(family)
    doc.insert_style(st1, default=True)
    doc.insert_style(st2, default=True)
    cont = doc.styles.get_element("//office:styles")
    defaults = [c for c in cont.children if c.tag == "style:default-style" and c.get_attribute("style:family") == family]
    got = doc.get_style(family)
    ok = len(defaults) == 1 and defaults[0]._Element__element is st2._Element__element and got is not None and got._Element__element is st2._Element__element
    return (not ok), f"{len(defaults)} default style(s) of family {family}"


def insert_automatic_unnamed(e, k, family="paragraph", **kw):
    existing = EXISTING[e]
    doc = Document("text")
    if existing:
        doc.insert_style(_mk(family, existing), automatic=True)
    doc.insert_style(_mk(family, "odfdo_auto_" + str(k)), automatic=True)
    a, b = Style(family), Style(family)
    ra = doc.insert_style(a, automatic=True)
    rb = doc.insert_style(b, automatic=True)
    names = [s.name for s in doc.get_styles(family, automatic=True)]
    ok = ra != rb and len(names) == len(set(names))
    ga, gb = doc.get_style(family, ra), doc.get_style(family, rb)
    ok = ok and ga._Element__element is a._Element__element and gb._Element__element is b._Element__element
    return (not ok), f"generated names {ra!r}, {rb!r}; automatic {family} names now {names}"


def insert_auto_interleaved(k, named_first, family="paragraph", **kw):
    doc = Document("text")
    a, b, c = Style(family), Style(family), _mk(family, "odfdo_auto_" + str(k))
    if named_first:
        rc = doc.insert_style(c, automatic=True)
        ra = doc.insert_style(a, automatic=True)
    else:
        ra = doc.insert_style(a, automatic=True)
        rc = doc.insert_style(c, automatic=True)
    rb = doc.insert_style(b, automatic=True)
    names = [s.name for s in doc.get_styles(family, automatic=True)]
    ok = len(names) == len(set(names)) and rb not in (ra, rc) and doc.get_style(family, rb)._Element__element is b._Element__element
    ok = ok and doc.get_style(family, rc)._Element__element is c._Element__element
    return (not ok), f"names returned {ra!r}, {rc!r}, {rb!r}; automatic {family} names {names}"


# ---- merge_styles_from ---------------------------------------------------------------------------
MNAMES = ["a", "b", "a b"]


def _mark(st, mark):
    st.set_attribute("style:class", mark)
    return st


def _snapshot(doc):
    return doc.styles.serialize(), doc.content.serialize()


def _dups(doc):
    seen, dups = set(), []
    for part in (doc.styles, doc.content):
        for cname in ("office:font-face-decls", "office:styles", "office:automatic-styles", "office:master-styles"):
            cont = part.get_element("//" + cname)
            if cont is None:
                continue
            for ch in cont.children:
                key = (part.__class__.__name__, cname, ch.tag, ch.get_attribute("style:family"), ch.get_attribute("style:name") or ch.get_attribute("draw:name"))
                if key in seen:
                    dups.append(key)
                seen.add(key)
    return dups


def merge_named(k2, automatic, other_default, k1=0, family="paragraph", **kw):
    n1, n2 = "vx" + MNAMES[k1], "vx" + MNAMES[k2]
    of = "text" if family != "text" else "paragraph"
    dest, other = Document("text"), Document("text")
    dest.insert_style(_mark(_mk(family, n1), "mine"), automatic=automatic)
    dest.insert_style(_mark(_mk(of, n1), "mine-other-family"))
    other.insert_style(_mark(_mk(family, n2), "theirs"), automatic=automatic)
    if other_default:
        other.insert_style(_mark(Style(family), "theirs"), default=True)
    before = _snapshot(other)
    dest.merge_styles_from(other)
    notes = []
    if _snapshot(other) != before:
        notes.append("the other document was changed by the merge")
    if _dups(dest):
        notes.append(f"duplicated styles {_dups(dest)}")
    got = dest.get_style(family, n2)
    if got is None or got.get_attribute("style:class") != "theirs":
        notes.append(f"lookup of ({family}, {n2}) gives {got!r} / {got is not None and got.get_attribute('style:class')}")
    if n1 != n2:
        g1 = dest.get_style(family, n1)
        if g1 is None or g1.get_attribute("style:class") != "mine":
            notes.append(f"dest's own ({family}, {n1}) is gone or replaced")
    g = dest.get_style(of, n1)
    if g is None or g.get_attribute("style:class") != "mine-other-family":
        notes.append(f"dest's ({of}, {n1}) is gone or replaced")
    d = dest.get_style(family)
    if d is None or (other_default and d.get_attribute("style:class") != "theirs"):
        notes.append("default style of the family missing or not the other document's")
    return bool(notes), "; ".join(notes) or "union, theirs win, other unchanged"


def merge_kind(same, extra_default, family="master-page", **kw):
    dest, other = Document("text"), Document("text")
    n1 = "vxK" if same else "vxK other"
    dflt = family == "font-face"
    dest.insert_style(_mark(_mk(family, n1), "mine"), default=dflt)
    dest.insert_style(_mark(_mk("paragraph", "vxK"), "mine-paragraph"))
    other.insert_style(_mark(_mk(family, "vxK"), "theirs"), default=dflt)
    before = _snapshot(other)
    dest.merge_styles_from(other)
    notes = []
    if _snapshot(other) != before:
        notes.append("the other document was changed by the merge")
    if _dups(dest):
        notes.append(f"duplicated styles {_dups(dest)}")
    got = dest.get_style(family, "vxK")
    if got is None or got.get_attribute("style:class") != "theirs":
        notes.append(f"lookup of ({family}, vxK) does not give the other document's definition")
    if not same:
        g1 = dest.get_style(family, n1)
        if g1 is None or g1.get_attribute("style:class") != "mine":
            notes.append("dest's own style of another name is gone")
    kp = dest.get_style("paragraph", "vxK")
    if kp is None or kp.get_attribute("style:class") != "mine-paragraph":
        notes.append("dest's paragraph style of the same name is gone")
    return bool(notes), "; ".join(notes) or "ok"


def merge_marker(twice, n_defaults, own_marker, **kw):
    from odfdo import Element
    dest, other = Document("text"), Document("text")

    def defaults(d):
        return sorted(s.family for s in d.styles.get_element("//office:styles").children if s.tag == "style:default-style")

    def marker(mark):
        return Element.from_tag('<draw:marker draw:name="Arrow" style:class="%s" svg:viewBox="0 0 20 30" svg:d="M10 0l10 30h-20z"/>' % mark)

    if own_marker:
        dest.styles.get_element("//office:styles").append(marker("mine"))
    other.styles.get_element("//office:styles").append(marker("theirs"))
    d0 = defaults(dest)
    before = _snapshot(other)
    dest.merge_styles_from(other)
    if twice:
        dest.merge_styles_from(other)
    notes = []
    if _snapshot(other) != before:
        notes.append("the other document was changed by the merge")
    if defaults(dest) != d0:
        notes.append(f"default styles of dest were {d0}, now {defaults(dest)}")
    ms = [s for s in dest.styles.get_element("//office:styles").children if s.tag == "draw:marker"]
    if len(ms) != 1 or ms[0].get_attribute("style:class") != "theirs":
        notes.append(f"{len(ms)} marker(s) after the merge: {[m.get_attribute('style:class') for m in ms]}")
    return bool(notes), "; ".join(notes) or "ok"


def merge_cross(k2, mine_in_auto, k1=0, family="paragraph", **kw):
    n1, n2 = "vx" + MNAMES[k1], "vx" + MNAMES[k2]
    dest, other = Document("text"), Document("text")
    a, b = ("//office:automatic-styles", "//office:styles") if mine_in_auto else ("//office:styles", "//office:automatic-styles")
    dest.styles.get_element(a).append(_mark(_mk(family, n1), "mine"))
    other.styles.get_element(b).append(_mark(_mk(family, n2), "theirs"))
    before = _snapshot(other)
    dest.merge_styles_from(other)
    defs = [s.get_attribute("style:class") for c in ("//office:styles", "//office:automatic-styles") for s in dest.styles.get_element(c).children
            if s.get_attribute("style:family") == family and s.get_attribute("style:name") == n2]
    got = dest.styles.get_style(family, n2)
    notes = []
    if _snapshot(other) != before:
        notes.append("the other document was changed by the merge")
    if defs != ["theirs"]:
        notes.append(f"definitions of ({family}, {n2}) in styles.xml after the merge: {defs}")
    if got is None or got.get_attribute("style:class") != "theirs":
        notes.append("lookup does not give the other document's definition")
    return bool(notes), "; ".join(notes) or "ok"
