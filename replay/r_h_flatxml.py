"""Replay of h_flatxml counterexamples: a real text document saved as zip and as flat XML."""
import base64
import io
import zipfile

from lxml import etree
from odfdo import Document, Element

PICS = {"Pictures/a.png": b"AAAA-picture-a", "Pictures/b.png": b"picture-b"}
HREFS = [None, "Pictures/a.png", "Pictures/b.png", "http://example.com/x.png"]
DRAW = "{urn:oasis:names:tc:opendocument:xmlns:drawing:1.0}"
OFFICE = "{urn:oasis:names:tc:opendocument:xmlns:office:1.0}"
XLINK = "{http://www.w3.org/1999/xlink}"


def flat_xml(k0, k1, k2, pretty, **kw):
    ks = [k0, k1, k2]
    doc = Document("text")
    doc.body.clear()
    frames = ""
    for i, k in enumerate(ks):
        img = "" if HREFS[k] is None else '<draw:image xlink:href="%s" draw:mime-type="image/png"/>' % HREFS[k]
        frames += '<draw:frame draw:name="f%d">%s</draw:frame>' % (i, img)
    doc.body.append(Element.from_tag("<text:p>%s</text:p>" % frames))
    for name, data in PICS.items():
        doc.set_part(name, data)
        doc.manifest.add_full_path(name, "image/png")
    try:
        out = io.BytesIO()
        doc.save(out, packaging="xml", pretty=pretty)
    except Exception as e:  # noqa: BLE001
        return True, f"save(packaging='xml') raised {e!r}"
    flat = etree.fromstring(out.getvalue())
    frames = [n for n in flat.iter() if n.tag == DRAW + "frame"]
    notes = []
    if len(frames) != 3:
        notes.append(f"{len(frames)} frames instead of 3")
    for i, fr in enumerate(frames):
        href = HREFS[ks[i]]
        imgs = [n for n in fr if n.tag == DRAW + "image"]
        if href is None:
            if len(fr):
                notes.append(f"frame {i} gained a child")
        elif href in PICS:
            data = [n for im in imgs for n in im if n.tag == OFFICE + "binary-data"]
            if len(imgs) != 1 or len(data) != 1 or base64.standard_b64decode((data[0].text or "").strip()) != PICS[href]:
                notes.append(f"frame {i} (picture {href}) has {len(imgs)} image(s), binary data of its picture: {len(data) == 1 and base64.standard_b64decode((data[0].text or '').strip()) == PICS[href]}")
        else:
            if len(imgs) != 1 or imgs[0].get(XLINK + "href") != href:
                notes.append(f"frame {i} (linked image) has {len(imgs)} image(s)")
    return bool(notes), "; ".join(notes) or "flat XML keeps every frame's image"
