"""Replays of h_arow counterexamples: real Row/Cell on real lxml (the vault replays do the same work)."""
import r_h_krow


def arow_set(c0, c1, x, rn, q, **kw):
    return r_h_krow.set_(x=x, rn=rn, q=q, pre_read=False, clone=True, which=0, c0=c0, c1=c1)


def arow_insert(c0, c1, x, rn, q, **kw):
    return r_h_krow.insert(x=x, rn=rn, q=q, pre_read=False, which=0, c0=c0, c1=c1)


def arow_delete(c0, c1, x, q, **kw):
    return r_h_krow.delete(x=x, q=q, pre_read=False, which=0, c0=c0, c1=c1)


def arow_get_clone(c0, c1, x, **kw):
    v1, d1 = r_h_krow.get_cell(x=x, q=0, clone=True, c0=c0, c1=c1)
    v2, d2 = r_h_krow.readers_small(start=0, end=c0 + c1, k=min(x, c0 + c1 - 1), c0=c0, c1=c1)
    return v1 or v2, d1 + " | " + d2


arow_set_small = arow_set
arow_insert_small = arow_insert


def acell_clone(x, y, has_x, has_y, rep, edit_clone, **kw):
    from odfdo import Cell, Row
    c = Cell(5, repeated=rep if rep > 1 else None)
    c.x = x if has_x else None
    c.y = y if has_y else None
    k = c.clone
    notes = []
    if (k.x, k.y) != (c.x, c.y):
        notes.append(f"clone of cell at {(c.x, c.y)} has position {(k.x, k.y)}")
    if k.serialize() != c.serialize():
        notes.append("clone XML differs")
    a, b = (k, c) if edit_clone else (c, k)
    before = b.serialize()
    a.set_value(7)
    a.x = 9
    if b.serialize() != before or b.x != (x if has_x else None):
        notes.append("an edit of one twin is seen in the other")
    row = Row()
    row.append_cell(c, clone=False)
    row.y = y if has_y else None
    r2 = row.clone
    if r2.y != row.y or r2.serialize() != row.serialize() or r2._rmap != row._rmap or r2._rmap is row._rmap:
        notes.append(f"row clone: y {r2.y} vs {row.y}, maps {r2._rmap} vs {row._rmap}")
    return bool(notes), "; ".join(notes) or "ok"
