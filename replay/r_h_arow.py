"""Replays of h_arow counterexamples: real Row/Cell on real lxml (the vault replays do the same work)."""
import r_h_krow


def arow_set(c0, c1, x, rn, q, **kw):
    return r_h_krow.set_(x=x, rn=rn, q=q, pre_read=False, clone=True, which=0, c0=c0, c1=c1)


def arow_insert(c0, c1, x, rn, q, **kw):
    return r_h_krow.insert(x=x, rn=rn, q=q, pre_read=False, which=0, c0=c0, c1=c1)


def arow_delete(c0, c1, x, q, **kw):
    return r_h_krow.delete(x=x, q=q, pre_read=False, which=0, c0=c0, c1=c1)


def arow_get_clone(c0, c1, x, **kw):
    v1, d1 = r_h_krow.get_cell(x=x, q=0, clone=True, c0=c0, c1=c1)
    v2, d2 = r_h_krow.readers_small(start=0, end=c0 + c1, k=min(x, c0 + c1 - 1), c0=c0, c1=c1)
    return v1 or v2, d1 + " | " + d2


arow_set_small = arow_set
arow_insert_small = arow_insert
