"""Replay of h_docsave counterexamples on a real document (real zip container, real lxml)."""
import io

from odfdo import Document, Element

TEXTS = ["", "a", " a "]


def _doc(t0, t1):
    doc = Document("text")
    body = doc.body
    body.clear()
    body.append(Element.from_tag('<text:p>%s<text:s/><text:span>%s</text:span><draw:frame/><text:span>b</text:span></text:p>' % (t0, t1)))
    buf = io.BytesIO()
    doc.save(buf)
    return io.BytesIO(buf.getvalue())


def _skel(n):
    return (n.tag, sorted(n.attrib.items()), (n.text or "").strip(), [_skel(c) for c in n], (n.tail or "").strip())


def save_neutral(k1, touch_content, touch_styles, pretty_first, touch_manifest=False, k0=0, **kw):
    import zipfile
    from lxml import etree
    t0, t1 = TEXTS[k0], TEXTS[k1]
    src = _doc(t0, t1)
    ref = Document(io.BytesIO(src.getvalue()))
    ref_body = ref.body.serialize()
    ref_styles = ref.styles.root.serialize()
    doc = Document(io.BytesIO(src.getvalue()))
    if touch_content:
        doc.body  # noqa: B018
    if touch_styles:
        doc.styles.root  # noqa: B018
    if touch_manifest:
        doc.manifest.add_full_path("Pictures/x.png", "image/png")
    out1 = io.BytesIO()
    doc.save(out1, pretty=pretty_first)
    mem1 = doc.body.serialize()
    out = io.BytesIO()
    doc.save(out, pretty=False)
    again = Document(io.BytesIO(out.getvalue()))
    ok = mem1 == ref_body and doc.body.serialize() == ref_body and doc.styles.root.serialize() == ref_styles and again.body.serialize() == ref_body
    notes = []
    z1, z2 = zipfile.ZipFile(io.BytesIO(out1.getvalue())), zipfile.ZipFile(io.BytesIO(out.getvalue()))
    if sorted(z1.namelist()) != sorted(z2.namelist()):
        notes.append(f"parts differ: {sorted(set(z1.namelist()) ^ set(z2.namelist()))}")
    for name in ("styles.xml", "meta.xml", "settings.xml", "META-INF/manifest.xml"):
        if _skel(etree.fromstring(z1.read(name))) != _skel(etree.fromstring(z2.read(name))):
            notes.append(f"{name} written by save(pretty={pretty_first}) differs from the plain save beyond white space")
    if touch_manifest and b"Pictures/x.png" not in z1.read("META-INF/manifest.xml"):
        notes.append("the manifest edit made in memory is missing from the first saved file")
    return (not ok or bool(notes)), (f"after save(pretty={pretty_first}) the in-memory body is {'unchanged' if mem1 == ref_body else 'CHANGED: ' + mem1[:200]}; "
                                      f"a following plain save wrote {'the same body' if again.body.serialize() == ref_body else 'a different body'}; " + "; ".join(notes))
