"""Replay of h_docsave counterexamples on a real document (real zip container, real lxml)."""
import io

from odfdo import Document, Element

TEXTS = ["", "a", " a "]


def _doc(t0, t1):
    doc = Document("text")
    body = doc.body
    body.clear()
    body.append(Element.from_tag('<text:p>%s<text:s/><text:span>%s</text:span><draw:frame/><text:span>b</text:span></text:p>' % (t0, t1)))
    buf = io.BytesIO()
    doc.save(buf)
    return io.BytesIO(buf.getvalue())


def save_neutral(k0, k1, touch_content, touch_styles, pretty_first, **kw):
    t0, t1 = TEXTS[k0], TEXTS[k1]
    src = _doc(t0, t1)
    ref = Document(io.BytesIO(src.getvalue()))
    ref_body = ref.body.serialize()
    ref_styles = ref.styles.root.serialize()
    doc = Document(io.BytesIO(src.getvalue()))
    if touch_content:
        doc.body  # noqa: B018
    if touch_styles:
        doc.styles.root  # noqa: B018
    doc.save(io.BytesIO(), pretty=pretty_first)
    mem1 = doc.body.serialize()
    out = io.BytesIO()
    doc.save(out, pretty=False)
    again = Document(io.BytesIO(out.getvalue()))
    ok = mem1 == ref_body and doc.body.serialize() == ref_body and doc.styles.root.serialize() == ref_styles and again.body.serialize() == ref_body
    return (not ok), f"after save(pretty={pretty_first}) the in-memory body is {'unchanged' if mem1 == ref_body else 'CHANGED: ' + mem1[:200]}; a following plain save wrote {'the same body' if again.body.serialize() == ref_body else 'a different body'}"
