"""Replays of h_toc counterexamples: the real TOC.fill on a real text document."""
from odfdo import Document, Header
from odfdo.toc import TOC


def _ref(levels):
    counters = {}
    out = []
    for lv in levels:
        for k in list(counters):
            if k > lv:
                del counters[k]
        for k in range(1, lv):
            counters.setdefault(k, 1)
        counters[lv] = counters.get(lv, 0) + 1
        out.append(".".join(str(counters[i]) for i in range(1, lv + 1)) + ".")
    return out


def _fill(levels, titles, outline, toc_pos, twice, relevel=None):
    doc = Document("text")
    body = doc.body
    body.clear()
    toc = TOC(title="Contents", outline_level=outline)
    items = [Header(lv, ti) for lv, ti in zip(levels, titles)]
    for i, h in enumerate(items):
        if i == toc_pos:
            body.append(toc)
        body.append(h)
    if toc_pos >= len(items):
        body.append(toc)
    toc.fill(use_default_styles=False)
    first = toc.serialize()
    if twice:
        toc.fill(use_default_styles=False)
        if toc.serialize() != first:
            return True, "fill is not idempotent"
    if relevel is not None:
        toc.outline_level = relevel
        toc.fill(use_default_styles=False)
        outline = relevel
    limit = outline if outline else 10
    kept = [(lv, ti) for lv, ti in zip(levels, titles) if lv <= limit]
    nums = _ref([lv for lv, _ in kept])
    entries = toc.body.get_elements("text:p")
    got = [e.inner_text for e in entries]
    exp = [n + " " + ti for n, (_, ti) in zip(nums, kept)]
    extra = [c.tag for e in entries for c in e.children if c.tag not in ("text:s", "text:tab")]
    title = toc.body.get_element("text:index-title")
    ok = got == exp and not extra and title is not None and title.inner_text.strip() == "Contents"
    return (not ok), f"levels {levels} outline {outline}: entries {got!r} expected {exp!r}; extra children {extra}; {toc.body.serialize()}"


def toc_levels(l0, l1, l2, outline=0, toc_pos=0, twice=False):
    return _fill([l0, l1, l2], ["A", "B", "C"], outline, toc_pos, twice)


def toc_text(l1, title, outline):
    return _fill([1, l1], ["A", title], outline, 0, False)


def toc_twice(l1, l2, outline):
    return _fill([1, l1, l2], ["A", "B", "C"], outline, 1, True)


def toc_relevel(l1, l2, o2, o1=0, **kw):
    return _fill([1, l1, l2], ["A", "B", "C"], o1, 1, False, relevel=o2)


def tool_outline(l1, l2, title, in_span=False, outline=0, **kw):
    """the odfdo-headers tool function against the TOC of the same document"""
    import contextlib
    import io
    from odfdo import Span
    from odfdo.scripts.headers import headers_document
    depth = outline if outline else 999
    doc = Document("text")
    doc.body.clear()
    levels, titles = [1, l1, l2], ["A", title, "C"]
    for i, (lv, ti) in enumerate(zip(levels, titles)):
        if in_span and i == 1:
            h = Header(lv, "")
            h.append(Span(ti))
        else:
            h = Header(lv, ti)
        doc.body.append(h)
    buf = io.StringIO()
    with contextlib.redirect_stdout(buf):
        headers_document(doc, depth)
    kept = [(lv, ti) for lv, ti in zip(levels, titles) if lv <= depth]
    exp = "".join(n + " " + ti + "\n" for n, (_, ti) in zip(_ref([lv for lv, _ in kept]), kept))
    return buf.getvalue() != exp, f"tool printed {buf.getvalue()!r}, outline model gives {exp!r}"
