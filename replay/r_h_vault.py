"""Replays of h_vault counterexamples through the PUBLIC API on real lxml.

lead == 0: the vault is a Row of cells [Cell(i, repeated=r_i)];
lead >= 1: the vault is a Table of rows (one column declaration in front),
           row i = one cell of value i, repeated r_i times.
Each conjunct is re-evaluated on the real objects, pointwise at q.
"""
from odfdo import Cell, Row, Table

import rlib


def _reps(kw):
    out = []
    i = 0
    while f"r{i}" in kw:
        out.append(kw[f"r{i}"])
        i += 1
    return out


def _build(reps, lead, cached):
    if lead == 0:
        v = rlib.mk_row([(i, r) for i, r in enumerate(reps)])
        if cached:
            acc = 0
            for r in reps:
                v._get_cell2_base(acc)
                acc += r
    else:
        v = rlib.mk_table([([(i, 1)], r) for i, r in enumerate(reps)])
        if cached:
            acc = 0
            for r in reps:
                v._get_row2_base(acc)
                acc += r
    return v


def _read(v, lead, q):
    if lead == 0:
        return v.get_value(q), v.width
    return v.get_value((0, q)), v.height


def _xml(v, lead, q):
    if lead == 0:
        runs = rlib.row_runs_xml(rlib._root(v))
        return rlib.lookup(runs, q), rlib.total(runs)
    return rlib.xml_table_value(v, 0, q), rlib.xml_table_height(v)


def _judge(v, lead, q, exp, exp_total, which, extra10=True, extra10_msg=""):
    live, size = _read(v, lead, q)
    xmlv, xmlsize = _xml(v, lead, q)
    f = rlib.fresh(v)
    fv, fsize = _read(f, lead, q)
    c01 = live == exp and size == exp_total and xmlv == exp and xmlsize == exp_total
    mm, mmsg = rlib.maps_match_fresh(v)
    c02 = live == fv == xmlv and size == fsize == xmlsize and mm
    c07 = rlib.repeats_valid(v) and (lead == 0 or rlib.structure_valid(v)[0])
    c10 = extra10
    msg = (f"at q={q}: expected {exp!r} size {exp_total}; live {live!r}/{size}; XML {xmlv!r}/{xmlsize}; "
           f"fresh {fv!r}/{fsize}; {mmsg}; structure {rlib.structure_valid(v) if lead else ''} {extra10_msg}")
    pick = {0: c01 and c02 and c07 and c10, 1: c01, 2: c02, 7: c07, 10: c10}[which]
    return (not pick), msg


def _mkitem(lead, rn):
    if lead == 0:
        return Cell(9, repeated=rn if rn > 1 else None)
    row = Row()
    row.append_cell(Cell(9), clone=False)
    if rn > 1:
        row.repeated = rn
    return row


def _detached(item, v):
    node = item._Element__element
    return all(ch._Element__element is not node for ch in v.children)


def _before(reps, q):
    return rlib.lookup([(i, r) for i, r in enumerate(reps)], q)


def set_n(pos, rn, q, cached, clone, which=0, lead=0, **kw):
    reps = _reps(kw)
    v = _build(reps, lead, cached)
    item = _mkitem(lead, rn)
    item_xml = item.serialize()
    if lead == 0:
        back = v.set_cell(pos, item, clone=clone)
    else:
        back = v.set_row(pos, item, clone=clone)
    exp = 9 if pos <= q < pos + rn else _before(reps, q)
    ok10 = True
    if clone:
        ok10 = item.serialize() == item_xml and _detached(item, v)
    return _judge(v, lead, q, exp, max(sum(reps), pos + rn), which, ok10, f"arg item after: {item.serialize()}")


def insert_n(pos, rn, q, cached, which=0, lead=0, **kw):
    reps = _reps(kw)
    v = _build(reps, lead, cached)
    item = _mkitem(lead, rn)
    item_xml = item.serialize()
    if lead == 0:
        v.insert_cell(pos, item)
    else:
        v.insert_row(pos, item)
    if pos <= q < pos + rn:
        exp = 9
    elif q < pos:
        exp = _before(reps, q)
    else:
        exp = _before(reps, q - rn)
    ok10 = item.serialize() == item_xml and _detached(item, v)
    return _judge(v, lead, q, exp, sum(reps) + rn, which, ok10, f"arg item after: {item.serialize()}")


def delete_n(pos, q, cached, which=0, lead=0, **kw):
    reps = _reps(kw)
    v = _build(reps, lead, cached)
    if lead == 0:
        v.delete_cell(pos)
    else:
        v.delete_row(pos)
    exp = _before(reps, q) if q < pos else _before(reps, q + 1)
    return _judge(v, lead, q, exp, sum(reps) - 1, which)


def map_prim(**kw):
    # pure functions: the harness itself is the replay (no lxml involved)
    import importlib
    import h_vault

    fn = getattr(h_vault, kw.pop("_func"))
    return (not fn(**kw)), "re-evaluated concretely"
