"""Concrete replay helpers: real odfdo on REAL lxml (never imported by a harness).

`expand_*` are the independent reader of C02: they walk the lxml tree of the
serialised element and sum repeat attributes; they never touch odfdo's maps.
"""
from lxml import etree

from odfdo import Cell, Column, Element, Row, Table

NS_T = "urn:oasis:names:tc:opendocument:xmlns:table:1.0"
NS_O = "urn:oasis:names:tc:opendocument:xmlns:office:1.0"


def T(tag):
    return "{%s}%s" % (NS_T, tag)


def _root(elem):
    # serialise + parse: "the XML parsed afresh"
    return etree.fromstring(elem.serialize(with_ns=True).encode())


def fresh(elem):
    return Element.from_tag(elem.serialize(with_ns=True))


def cell_payload(c):
    v = c.get("{%s}value" % NS_O)
    if v is None:
        return None
    try:
        return int(v)
    except ValueError:
        return v


def row_runs_xml(row_node):
    out = []
    for c in row_node:
        if c.tag in (T("table-cell"), T("covered-table-cell")):
            r = c.get(T("number-columns-repeated"))
            out.append((cell_payload(c), int(r) if r is not None else 1, r))
    return out


def lookup(runs, q):
    acc = 0
    for item in runs:
        if q < acc + item[1]:
            return item[0]
        acc += item[1]
    return None


def total(runs):
    return sum(r[1] for r in runs)


def xml_row_value(row, q):
    return lookup(row_runs_xml(_root(row)), q)


def table_rows_xml(table):
    """[(cell runs, row repeat, raw attr)] of a table, by the independent reader"""
    root = _root(table)
    out = []
    for r in root.iter(T("table-row")):
        rr = r.get(T("number-rows-repeated"))
        out.append((row_runs_xml(r), int(rr) if rr is not None else 1, rr))
    return out


def table_cols_xml(table):
    root = _root(table)
    out = []
    for c in root.iter(T("table-column")):
        rr = c.get(T("number-columns-repeated"))
        out.append((None, int(rr) if rr is not None else 1, rr))
    return out


def xml_table_value(table, qx, qy):
    rows = table_rows_xml(table)
    acc = 0
    for runs, rep, _ in rows:
        if qy < acc + rep:
            return lookup(runs, qx)
        acc += rep
    return None


def xml_table_height(table):
    return sum(r[1] for r in table_rows_xml(table))


def xml_table_width(table):
    return sum(c[1] for c in table_cols_xml(table))


def repeats_valid(table_or_row):
    """C07: repeat attributes are absent or decimal integers >= 2"""
    root = _root(table_or_row)
    for n in root.iter():
        for a in ("number-columns-repeated", "number-rows-repeated"):
            v = n.get(T(a))
            if v is not None:
                if not v.isascii() or not v.isdigit() or int(v) < 2:
                    return False
    return True


def structure_valid(table):
    """C07 structure: rows contain only cells, columns precede rows, no row wider than the
    declared columns (when the table has rows), height/width equal the sums of the repeats"""
    root = _root(table)
    seen_row = False
    for ch in root:
        if ch.tag == T("table-row"):
            seen_row = True
            for c in ch:
                if c.tag not in (T("table-cell"), T("covered-table-cell")):
                    return False, "row child " + c.tag
        elif ch.tag == T("table-column"):
            if seen_row:
                return False, "column after row"
    w = xml_table_width(table)
    for runs, rep, _ in table_rows_xml(table):
        if total(runs) > w:
            return False, f"row of width {total(runs)} wider than declared {w}"
    if table.height != xml_table_height(table):
        return False, f"height {table.height} != {xml_table_height(table)}"
    if table.width != w:
        return False, f"width {table.width} != {w}"
    if not repeats_valid(table):
        return False, "bad repeat attribute"
    return True, ""


def mk_row(runs):
    """runs: [(payload, rep)]"""
    row = Row()
    for p, r in runs:
        row.append_cell(Cell(p, repeated=r if r > 1 else None), clone=False)
    return row


def mk_table(rowruns, name="t"):
    """rowruns: [([(payload, rep)...], rowrep)] built through the public API"""
    t = Table(name)
    for runs, rep in rowruns:
        row = mk_row(runs)
        if rep > 1:
            row.repeated = rep
        t.append_row(row, clone=False)
    return t


def maps_match_fresh(obj):
    f = fresh(obj)
    for name in ("_tmap", "_cmap", "_rmap"):
        if hasattr(f, name) and name != "_tmap" and obj._tag == "table:table-row" and name == "_cmap":
            continue
    if obj._tag == "table:table-row":
        return obj._rmap == f._rmap, f"_rmap live {obj._rmap} fresh {f._rmap}"
    ok = obj._tmap == f._tmap and obj._cmap == f._cmap
    return ok, f"_tmap live {obj._tmap} fresh {f._tmap}; _cmap live {obj._cmap} fresh {f._cmap}"
