"""Replays of h_repl counterexamples on real lxml."""
import re

from odfdo import Element, Paragraph

from r_h_ws import collapse_xml

PATTERNS = ["a", "ab", "a+", "[ab]", "b$", "^a", "a|bb"]
TAIL = "ab"


def mk(t0, t1):
    p = Element.from_tag("text:p")
    p.text = t0
    sp = Element.from_tag("text:span")
    sp.text = t1
    p._Element__element.append(sp._Element__element)
    sp.tail = TAIL
    return p, sp


def repl_count(t0, t1, formatted=False, pat=0, **kw):
    PAT = PATTERNS[pat]
    p, sp = mk(t0, t1)
    xml = p.serialize()
    n = p.replace(PAT, formatted=formatted)
    exp = len(re.findall(PAT, t0)) + len(re.findall(PAT, t1)) + len(re.findall(PAT, TAIL))
    return (n != exp or p.serialize() != xml), f"replace({PAT!r}) counted {n}, per-run matches {exp}; tree changed: {p.serialize() != xml}"


def repl_sub(t0, t1, new, pat=0, **kw):
    PAT = PATTERNS[pat]
    p, sp = mk(t0, t1)
    n = p.replace(PAT, new)
    e0, n0 = re.subn(PAT, new, t0)
    e1, n1 = re.subn(PAT, new, t1)
    e2, n2 = re.subn(PAT, new, TAIL)
    node = p._Element__element
    ok = n == n0 + n1 + n2 and (node.text or "") == e0 and (node[0].text or "") == e1 and (node[0].tail or "") == e2 and len(node) == 1 and len(node[0]) == 0
    return (not ok), f"replace({PAT!r}, {new!r}) on {t0!r}<span>{t1!r}</span>{TAIL!r}: returned {n}; {p.serialize()}"


def search_pos(t0, t1, pat=0, **kw):
    PAT = PATTERNS[pat]
    p, sp = mk(t0, t1)
    xml = p.serialize()
    flat = t0 + t1 + TAIL
    m = re.search(PAT, flat)
    pos, first, allm = p.search(PAT), p.search_first(PAT), p.search_all(PAT)
    ok = p.text_recursive == flat and ((pos is None) == (m is None)) and (pos is None or pos == m.start())
    ok = ok and ((first is None) == (m is None)) and (first is None or first == (m.start(), m.end()))
    ok = ok and allm == [(x.start(), x.end()) for x in re.finditer(PAT, flat)] and p.match(PAT) == (m is not None) and p.serialize() == xml
    return (not ok), f"search {PAT!r} in {flat!r}: {pos} {first} {allm}"


def search_after_edit(t0, t1, in_span, pat=0, **kw):
    PAT = PATTERNS[pat]
    p, sp = mk(t0, t1)
    p.search_all(PAT), p.search(PAT), p.text_at(0)
    if in_span:
        sp.text = "ba"
        flat = t0 + "ba" + TAIL
    else:
        sp.tail = "b" + TAIL
        flat = t0 + t1 + "b" + TAIL
    m = re.search(PAT, flat)
    pos, first, allm = p.search(PAT), p.search_first(PAT), p.search_all(PAT)
    ok = ((pos is None) == (m is None)) and (pos is None or pos == m.start())
    ok = ok and ((first is None) == (m is None)) and (first is None or first == (m.start(), m.end()))
    ok = ok and allm == [(x.start(), x.end()) for x in re.finditer(PAT, flat)] and p.text_at(0) == flat and p.match(PAT) == (m is not None)
    return (not ok), f"search {PAT!r} after an edit, text now {flat!r}: search {pos}, first {first}, all {allm}, text_at(0) {p.text_at(0)!r}"


def text_at_pos(t0, t1, start, end, **kw):
    p, sp = mk(t0, t1)
    flat = t0 + t1 + TAIL
    s = max(start, 0)
    ok = p.text_at(start) == flat[s:] and p.text_at(start, end) == flat[s:max(end, s)]
    return (not ok), f"text_at({start},{end}) on {flat!r}: {p.text_at(start)!r} {p.text_at(start, end)!r}"


def repl_formatted(t, new="", **kw):
    from lxml import etree
    p = Paragraph(t)
    exp = re.sub("x", new, t)
    p.replace("x", new, formatted=True)
    node = etree.fromstring(p.serialize(with_ns=True).encode())
    ok = p.inner_text == exp and collapse_xml(node) == exp
    return (not ok), f"Paragraph({t!r}).replace('x', {new!r}, formatted=True): text {p.inner_text!r}, consumer reads {collapse_xml(node)!r}, expected {exp!r}; {p.serialize()}"


def repl_formatted_tree(t0, t1, new="", **kw):
    from lxml import etree
    from odfdo import Span
    p = Paragraph(t0)
    sp = Span(t1)
    p.append(sp)
    sp.tail = "xb"
    n = p.replace("x", new, formatted=True)
    exp = re.sub("x", new, t0) + re.sub("x", new, t1) + re.sub("x", new, "xb")
    cnt = len(re.findall("x", t0)) + len(re.findall("x", t1)) + 1
    node = etree.fromstring(p.serialize(with_ns=True).encode())
    ok = n == cnt and p.inner_text == exp and collapse_xml(node) == exp
    return (not ok), f"<p>{t0!r}<span>{t1!r}</span>'xb'</p>.replace('x', {new!r}, formatted=True) -> {n} (expected {cnt}); text {p.inner_text!r}, consumer reads {collapse_xml(node)!r}, expected {exp!r}; {p.serialize()}"


def count_pure_ws(t, **kw):
    p = Element.from_tag("text:p")
    p._Element__element.text = t
    xml = p.serialize()
    n1 = p.replace("a", formatted=True)
    n2 = p.replace("a", formatted=True)
    ok = p.serialize() == xml and n1 == n2 == len(re.findall("a", t))
    return (not ok), f"replace('a', formatted=True) count on raw {t!r}: {n1}, {n2}; document changed: {p.serialize() != xml}"
