"""Replays of h_para counterexamples on real lxml."""
from lxml import etree

from odfdo import Element, Header, Paragraph, Span

from r_h_ws import collapse_xml


def _ok(p, text):
    xml = p.serialize(with_ns=True)
    node = etree.fromstring(xml.encode())
    again = Element.from_tag(xml)
    ok = p.inner_text == text and again.inner_text == text and collapse_xml(node) == text
    return (not ok), f"expected {text!r}: inner_text {p.inner_text!r}, reparsed {again.inner_text!r}, consumer reads {collapse_xml(node)!r}; xml {p.serialize()}"


def para_one(s):
    return _ok(Paragraph(s), s)


def span_one(s):
    return _ok(Span(s), s)


def header_one(s):
    return _ok(Header(1, s), s)


def para_two_appends(s1, s2):
    p = Paragraph(s1)
    p.append_plain_text(s2)
    return _ok(p, s1 + s2)


def para_three_appends(s1, s2, s3):
    p = Paragraph(s1)
    p.append(s2)
    p.append(s3)
    return _ok(p, s1 + s2 + s3)


def header_two_appends(s1, s2):
    h = Header(1, s1)
    h.append_plain_text(s2)
    return _ok(h, s1 + s2)


def span_two_appends(s1, s2):
    sp = Span(s1)
    sp.append_plain_text(s2)
    return _ok(sp, s1 + s2)


def para_unformatted_append(s1, s2):
    p = Paragraph(s1)
    p.append(s2, formatted=False)
    exp = ""
    blank = False
    for c in s2:
        if c in " \t\n":
            if not blank:
                exp += " "
            blank = True
        else:
            exp += c
            blank = False
    return _ok(p, s1 + exp)


def para_nbsp(s):
    p = Paragraph(s)
    again = Element.from_tag(p.serialize(with_ns=True))
    return (p.inner_text != s or again.inner_text != s), f"Paragraph({s!r}) reads {p.inner_text!r}, reparsed {again.inner_text!r}"
