"""Replays for h_names obligations that carry a per-process constant."""
from odfdo.toc import TOC


def _ref(levels):
    counters = {}
    out = []
    for lv in levels:
        for k in list(counters):
            if k > lv:
                del counters[k]
        for k in range(1, lv):
            counters.setdefault(k, 1)
        counters[lv] = counters.get(lv, 0) + 1
        out.append(".".join(str(counters[i]) for i in range(1, lv + 1)) + ".")
    return out


def numbering_deep(a, b, c):
    idx = {}
    got = [TOC._header_numbering(idx, lv) for lv in (a, b, c)]
    exp = _ref([a, b, c])
    return got != exp, f"levels {(a, b, c)}: got {got}, outline model {exp}"
