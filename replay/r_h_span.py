"""Replays of h_span counterexamples on real lxml."""
from odfdo import Cell, Row, Table


def mk(r0, c0, n=3):
    t = Table("t")
    for base, rep in ((10, r0), (20, n - r0)):
        row = Row()
        row.append_cell(Cell(base + 1, repeated=c0 if c0 > 1 else None), clone=False)
        row.append_cell(Cell(base + 2, repeated=(n - c0) if (n - c0) > 1 else None), clone=False)
        if rep > 1:
            row.repeated = rep
        t.append_row(row, clone=False)
    return t


def grid(t):
    out = []
    for row in t.traverse():
        out.append([(c.tag, c.get_value(), c.get_attribute("table:number-columns-spanned"), c.get_attribute("table:number-rows-spanned")) for c in row.traverse()])
    return out


def span_area(x, y, z, t, r0=1, c0=1, n=3, **kw):
    tab = mk(r0, c0, n)
    g0 = grid(tab)
    first = tab.set_span((x, y, z, t))
    g1 = grid(tab)
    notes = []
    if first is not True or tab.size != (n, n):
        notes.append(f"set_span returned {first}, size {tab.size}")
    for yy in range(n):
        for xx in range(n):
            tag, val, cs, rs = g1[yy][xx]
            inside = x <= xx <= z and y <= yy <= t
            if val != g0[yy][xx][1]:
                notes.append(f"value at ({xx},{yy}) changed {g0[yy][xx][1]} -> {val}")
            if (xx, yy) == (x, y):
                if tag != "table:table-cell" or cs != str(z - x + 1) or rs != str(t - y + 1):
                    notes.append(f"top-left cell is {tag} spanning {cs}x{rs}")
            elif inside and tag != "table:covered-table-cell":
                notes.append(f"({xx},{yy}) inside the area is {tag}")
            elif not inside and (tag != "table:table-cell" or cs or rs):
                notes.append(f"({xx},{yy}) outside the area is {tag} {cs} {rs}")
    if tab.set_span((x, y, z, t)) is not False or grid(tab) != g1:
        notes.append("overlapping span not refused")
    if tab.del_span((x, y)) is not True or grid(tab) != g0:
        notes.append("del_span does not restore the table")
    return bool(notes), "; ".join(notes) or "span ok"


def csv_rows(k1, rep, as_str, k0=0, **kw):
    """real csv module: the exported text read back with csv.reader gives the values' CSV renderings"""
    import csv
    import io
    from decimal import Decimal
    vals = [0, False, "", " b ", None, Decimal("1.5"), 0.0]
    v0, v1 = vals[k0], vals[k1]
    t = Table("t")
    r = Row()
    r.append_cell(Cell(v0, repeated=rep if rep > 1 else None), clone=False)
    r.append_cell(Cell(v1), clone=False)
    t.append_row(r, clone=False)
    r2 = Row()
    r2.append_cell(Cell(v0), clone=False)
    t.append_row(r2, clone=False)

    def w(v):
        if v is None:
            return ""
        if isinstance(v, str):
            return v.strip()
        if isinstance(v, bool):
            return str(v)
        return str(int(v)) if v == int(v) else str(v)

    exp = [[w(v0)] * rep + [w(v1)], [w(v0)] + [""] * rep]
    if as_str:
        text = str(t)
        got = [row for row in csv.reader(io.StringIO(text), delimiter=" ", quotechar='"', escapechar=chr(92), doublequote=False)]
    else:
        text = t.to_csv()
        got = [row for row in csv.reader(io.StringIO(text))]
    return got != exp, f"exported {text!r}: rows {got}, expected {exp}"
