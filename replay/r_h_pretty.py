"""Replays of h_pretty counterexamples on real lxml: the same small document saved pretty and plain
through the public API; the paragraph text a consumer reads must be the same."""
import io

from lxml import etree

from odfdo import Document, Element

TAGS = ["text:span", "draw:frame", "text:note", "text:a", "office:annotation"]
STRUCTURAL = ("frame", "note", "text-box", "annotation")


def collapse_proj(node, st):
    tag = etree.QName(node).localname
    if tag == "tab":
        st[0] = False
        return "\t"
    if tag == "line-break":
        st[0] = False
        return "\n"
    if tag == "s":
        st[0] = False
        return " "
    if tag in STRUCTURAL:
        return ""
    out = ""

    def chars(s):
        nonlocal out
        for ch in s or "":
            if ch in " \t\n\r":
                if not st[0]:
                    out += " "
                    st[0] = True
            else:
                out += ch
                st[0] = False

    chars(node.text)
    for c in node:
        out += collapse_proj(c, st)
        chars(c.tail)
    return out


def para_text(p):
    return collapse_proj(p, [True]).rstrip(" ")


def _doc(kind1, t_p, t1, tail1, inner, kind2=None, t2=None):
    doc = Document("text")
    body = doc.body
    body.clear()
    p = Element.from_tag("text:p")
    node = p._Element__element
    node.text = t_p
    e1 = Element.from_tag(TAGS[kind1])._Element__element
    node.append(e1)
    e1.text = t1
    e1.tail = tail1
    if inner:
        e1.append(Element.from_tag("draw:text-box" if kind1 == 1 else "text:span")._Element__element)
    if kind2 is not None:
        e2 = Element.from_tag(TAGS[kind2])._Element__element
        node.append(e2)
        e2.text = t2
    body.append(p)
    return doc


def _saved_text(doc, pretty):
    buf = io.BytesIO()
    doc.save(buf, pretty=pretty)
    again = Document(io.BytesIO(buf.getvalue()))
    p = again.body.get_element("text:p")
    return para_text(etree.fromstring(p.serialize(with_ns=True).encode()))


def _judge(doc):
    mem_before = doc.body.serialize()
    plain = _saved_text(doc, False)
    pretty = _saved_text(doc, True)
    mem_same = doc.body.serialize() == mem_before
    return (plain != pretty or not mem_same), f"paragraph reads {plain!r} after a plain save and {pretty!r} after a pretty save; memory untouched {mem_same}"


def pretty_one(kind1, t_p, t1, tail1, inner, **kw):
    return _judge(_doc(kind1, t_p, t1, tail1, inner))


pretty_part_pure = pretty_one


def pretty_two(kind2, t_p, tail1, t2, kind1=0, **kw):
    return _judge(_doc(kind1, t_p, None, tail1, False, kind2, t2))


def pretty_two_region(kind1, kind2, t_p, tail1, t2, **kw):
    return pretty_two(kind2, t_p, tail1, t2, kind1=kind1)
