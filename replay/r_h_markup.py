"""Replays of h_markup counterexamples on real lxml."""
import re

from odfdo import Element

PATTERNS = ["a", "ab", "b+", "[ab]b"]


def mk(t0, t1, t2):
    xml = ('<text:p>%s<text:a xlink:href="u">%s<text:span>%s</text:span>b</text:a>ab</text:p>' % (t0, t1, t2))
    return Element.from_tag(xml)


def flat(e):
    return "".join(str(t) for t in e.xpath("descendant::text()"))


def runs(t0, t1, t2):
    return [t0, t1, t2, "b", "ab"]


def span_regex(t0, t1, t2, pat=0, **kw):
    PAT = PATTERNS[pat]
    p = mk(t0, t1, t2)
    before = flat(p)
    p.set_span("NEW", regex=PAT)
    new = [s for s in p.get_elements("descendant::text:span") if s.get_attribute("text:style-name") == "NEW"]
    exp = sum(len(re.findall(PAT, r)) for r in runs(t0, t1, t2))
    ok = flat(p) == before and len(new) == exp and all(re.fullmatch(PAT, flat(n)) for n in new)
    return (not ok), f"set_span(regex={PAT!r}) on {before!r}: text now {flat(p)!r}, {len(new)} new spans (expected {exp}) holding {[flat(n) for n in new]}: {p.serialize()}"


def bookmark_regex(t0, t1, t2, use_before, pat=0, **kw):
    PAT = PATTERNS[pat]
    p = mk(t0, t1, t2)
    before = flat(p)
    xml = p.serialize()
    found = any(re.search(PAT, r) for r in runs(t0, t1, t2))
    try:
        if use_before:
            p.set_bookmark("bm", before=PAT)
        else:
            p.set_bookmark("bm", after=PAT)
    except ValueError:
        return (found or p.serialize() != xml), "ValueError although a run matches / tree modified"
    if not found:
        return True, "no match but no ValueError"
    acc, exp = 0, None
    for r in runs(t0, t1, t2):
        m = re.search(PAT, r)
        if m:
            exp = acc + (m.start() if use_before else m.end())
            break
        acc += len(r)
    head = p.serialize().split("<text:bookmark")[0]
    pos = len(re.sub(r"<[^>]*>", "", head))
    return (flat(p) != before or pos != exp), f"bookmark at {pos}, expected {exp}; text {flat(p)!r} (was {before!r}): {p.serialize()}"


def bookmark_regex_pos(t0, t1, t2, use_before, pat=0, pos=0, **kw):
    PAT = PATTERNS[pat]
    p = mk(t0, t1, t2)
    before = flat(p)
    xml = p.serialize()
    spots, acc = [], 0
    for r in runs(t0, t1, t2):
        for m in re.finditer(PAT, r):
            spots.append(acc + (m.start() if use_before else m.end()))
        acc += len(r)
    exp = (spots[-1] if spots else None) if pos < 0 else (spots[pos] if pos < len(spots) else None)
    try:
        if use_before:
            p.set_bookmark("bm", before=PAT, position=pos)
        else:
            p.set_bookmark("bm", after=PAT, position=pos)
    except ValueError:
        return (exp is not None or p.serialize() != xml), f"ValueError although match {pos} exists (expected offset {exp}) / tree modified"
    except IndexError as e:
        return True, f"IndexError {e} (matches at {spots}, position {pos})"
    if exp is None:
        return True, f"no match number {pos} but no ValueError: {p.serialize()}"
    head = p.serialize().split("<text:bookmark")[0]
    got = len(re.sub(r"<[^>]*>", "", head))
    return (flat(p) != before or got != exp), f"bookmark at {got}, expected {exp} (match {pos} of {spots}); text {flat(p)!r} (was {before!r}): {p.serialize()}"


def strip_spans(t0, t1, t2, **kw):
    p = mk(t0, t1, t2)
    before = flat(p)
    r1 = p.remove_spans()
    ok = flat(r1) == before and not r1.get_elements("descendant::text:span") and bool(r1.get_elements("descendant::text:a"))
    p2 = mk(t0, t1, t2)
    r2 = p2.remove_links()
    ok = ok and flat(r2) == before and not r2.get_elements("descendant::text:a")
    return (not ok), f"{before!r}: remove_spans -> {r1.serialize()} ; remove_links -> {r2.serialize()}"


def delete_keep_tail(t0, t1, tl, keep, inner, **kw):
    if inner:
        xml = '<text:p>%s<text:a xlink:href="u">%s<text:span>a</text:span>%s</text:a>ab</text:p>' % (t0, t1, tl)
    else:
        xml = '<text:p>%s<text:a xlink:href="u">%s<text:span>a</text:span>b</text:a>%s</text:p>' % (t0, t1, tl)
    p = Element.from_tag(xml)
    a = p.get_element("text:a")
    if inner:
        a.delete(a.get_element("text:span"), keep_tail=keep)
        exp = t0 + t1 + (tl if keep else "") + "ab"
    else:
        p.delete(a, keep_tail=keep)
        exp = t0 + (tl if keep else "")
    return flat(p) != exp, f"after delete(keep_tail={keep}) in {xml}: {flat(p)!r}, expected {exp!r}"
