"""Replays of h_krow counterexamples: the same Row operation through the public API on real lxml."""
from odfdo import Cell, Row

import rlib


def _reps(kw):
    out = []
    i = 0
    while f"c{i}" in kw:
        out.append(kw[f"c{i}"])
        i += 1
    return out


def _runs(reps):
    return [(i + 1, r) for i, r in enumerate(reps)]


def _mk(reps, pre_read=False):
    row = rlib.mk_row(_runs(reps))
    if pre_read:
        acc = 0
        for r in reps:
            row.get_cell(acc, clone=False)
            acc += r
    return row


def _judge(row, exp, exp_width, q, which, c10=True, note=""):
    live = row.get_value(q)
    runs = rlib.row_runs_xml(rlib._root(row))
    xmlv, xmlw = rlib.lookup(runs, q), rlib.total(runs)
    f = rlib.fresh(row)
    c01 = live == exp and row.width == exp_width and xmlv == exp and xmlw == exp_width
    c02 = row._rmap == f._rmap and f.get_value(q) == live == xmlv and row.width == f.width == xmlw
    c07 = rlib.repeats_valid(row)
    pick = {0: c01 and c02 and c07 and c10, 1: c01, 2: c02, 7: c07, 10: c10}.get(which, c01 and c02 and c07 and c10)
    return (not pick), (f"q={q}: expected {exp!r}/width {exp_width}; live {live!r}/{row.width}; XML {xmlv!r}/{xmlw}; "
                        f"_rmap {row._rmap} fresh {f._rmap}; repeats_valid {c07}; arg untouched {c10} {note}")


def _cell(v, rn):
    return Cell(v, repeated=rn if rn > 1 else None)


def _detached(item, v):
    node = item._Element__element
    return all(ch._Element__element is not node for ch in v.children)


def set_(x, rn, q, pre_read, clone, which=0, **kw):
    reps = _reps(kw)
    row = _mk(reps, pre_read)
    cell = _cell(9, rn)
    xml = cell.serialize()
    row.set_cell(x, cell, clone=clone)
    exp = 9 if x <= q < x + rn else rlib.lookup(_runs(reps), q)
    c10 = (cell.serialize() == xml and _detached(cell, row)) if clone else True
    return _judge(row, exp, max(sum(reps), x + rn), q, which, c10)


def set_none(x, q, which=0, **kw):
    reps = _reps(kw)
    row = _mk(reps)
    row.set_cell(x)
    exp = None if q == x else rlib.lookup(_runs(reps), q)
    return _judge(row, exp, max(sum(reps), x + 1), q, which)


def set_value(x, v, q, pre_read, which=0, **kw):
    reps = _reps(kw)
    row = _mk(reps, pre_read)
    row.set_value(x, v)
    exp = v if q == x else rlib.lookup(_runs(reps), q)
    return _judge(row, exp, max(sum(reps), x + 1), q, which)


def insert(x, rn, q, pre_read, which=0, **kw):
    reps = _reps(kw)
    row = _mk(reps, pre_read)
    cell = _cell(9, rn)
    xml = cell.serialize()
    row.insert_cell(x, cell)
    before = _runs(reps)
    if x <= q < x + rn:
        exp = 9
    elif q < x:
        exp = rlib.lookup(before, q)
    else:
        exp = rlib.lookup(before, q - rn)
    c10 = cell.serialize() == xml and _detached(cell, row)
    return _judge(row, exp, max(sum(reps), x) + rn, q, which, c10)


def append(rn, q, clone, which=0, **kw):
    reps = _reps(kw)
    row = _mk(reps)
    cell = _cell(9, rn)
    xml = cell.serialize()
    back = row.append_cell(cell, clone=clone)
    w = sum(reps)
    exp = 9 if w <= q < w + rn else rlib.lookup(_runs(reps), q)
    c10 = (cell.serialize() == xml and _detached(cell, row)) if clone else True
    v, d = _judge(row, exp, w + rn, q, which, c10)
    return v or back.x != w + rn - 1, d + f" back.x={back.x}"


def delete(x, q, pre_read, which=0, **kw):
    reps = _reps(kw)
    row = _mk(reps, pre_read)
    before = _runs(reps)
    w = sum(reps)
    row.delete_cell(x)
    if x >= w:
        exp, ew = rlib.lookup(before, q), w
    else:
        exp, ew = (rlib.lookup(before, q) if q < x else rlib.lookup(before, q + 1)), w - 1
    return _judge(row, exp, ew, q, which)


def set_cells2(start, rn1, rn2, q, clone, which=0, **kw):
    reps = _reps(kw)
    row = _mk(reps)
    before = _runs(reps)
    row.set_cells([_cell(8, rn1), _cell(9, rn2)], start=start, clone=clone)
    if start == 0 and (not clone) and 2 >= sum(reps):
        exp = 8 if q < rn1 else (9 if q < rn1 + rn2 else None)
        return _judge(row, exp, rn1 + rn2, q, which)
    if start <= q < start + rn1:
        exp = 8
    elif start + rn1 <= q < start + rn1 + rn2:
        exp = 9
    else:
        exp = rlib.lookup(before, q)
    return _judge(row, exp, max(sum(reps), start + rn1 + rn2), q, which)


def set_values2(start, q, which=0, **kw):
    reps = _reps(kw)
    row = _mk(reps)
    before = _runs(reps)
    row.set_values([8, 9], start=start)
    if start == 0 and 2 >= sum(reps):
        exp = 8 if q == 0 else (9 if q == 1 else None)
        return _judge(row, exp, 2, q, which)
    exp = 8 if q == start else (9 if q == start + 1 else rlib.lookup(before, q))
    return _judge(row, exp, max(sum(reps), start + 2), q, which)


def negative(x, q, which=0, **kw):
    reps = _reps(kw)
    row = _mk(reps)
    before = _runs(reps)
    w = sum(reps)
    same = row.get_value(x) == row.get_value(w + x) == rlib.lookup(before, w + x)
    stamped = row.get_cell(x).x == w + x
    row.set_cell(x, Cell(9))
    exp = 9 if q == w + x else rlib.lookup(before, q)
    v, d = _judge(row, exp, w, q, which)
    return v or not same or not stamped, d + f" same_read={same} stamped={stamped}"


def get_cell(x, q, clone, which=0, **kw):
    reps = _reps(kw)
    row = _mk(reps)
    row.y = 7
    before = _runs(reps)
    xml = row.serialize()
    rmap = row._rmap[:]
    cell = row.get_cell(x, clone=clone)
    ok = cell is not None and cell.x == x and cell.y == 7 and cell.get_value() == rlib.lookup(before, x)
    pure = row.serialize() == xml and row._rmap == rmap and row.width == sum(reps)
    detached = True
    if clone or x >= sum(reps):
        cell.set_value(99)
        cell.repeated = None
        detached = row.serialize() == xml and row.get_value(q) == rlib.lookup(before, q)
    return (not (ok and pure and detached)), f"ok={ok} pure={pure} detached={detached}"


def readers_small(start, end, k, which=0, **kw):
    reps = _reps(kw)
    row = _mk(reps)
    row.y = 5
    before = _runs(reps)
    w = sum(reps)
    xml = row.serialize()
    cells = list(row.traverse(start, end))
    exp_n = max(0, min(end, w - 1) - start + 1)
    ok = len(cells) == exp_n
    if k < len(cells):
        c = cells[k]
        ok = ok and c.x == start + k and c.y == 5 and c.repeated is None and c.get_value() == rlib.lookup(before, start + k)
        c.set_value(99)
    allc = row.cells
    ok = ok and len(allc) == w and (k >= w or (allc[k].x == k and allc[k].repeated is None and allc[k].get_value() == rlib.lookup(before, k)))
    vals = row.get_values()
    ok = ok and len(vals) == w and (k >= w or vals[k] == rlib.lookup(before, k))
    sub = row.get_values((start, end))
    ok = ok and len(sub) == exp_n and (k >= exp_n or sub[k] == rlib.lookup(before, start + k))
    ok = ok and len(row.get_cells((start, end))) == exp_n
    pure = row.serialize() == xml and row.width == w and row._rmap == rlib.fresh(row)._rmap
    return (not (ok and pure)), f"ok={ok} pure={pure} n={len(cells)} expected {exp_n}"
