"""Replays of h_attrs counterexamples on real lxml."""
import importlib

from odfdo import Element



def _cls(cls):
    m, c = cls.split(":")
    return getattr(importlib.import_module(m), c)


def _run(cls, param, value, extra=None):
    C = _cls(cls)
    e = C(**{param: value}, **(extra or {}))
    again = Element.from_tag(e.serialize(with_ns=True))
    return getattr(e, param), getattr(again, param), type(again) is type(e), e.serialize()


def attr_str(s, cls, param, extra=None, **kw):
    a, b, same, xml = _run(cls, param, s, extra)
    return not (a == s and b == s and same), f"{cls}({param}={s!r}): property {a!r}, after re-parse {b!r}, same class {same}: {xml}"


def attr_bool(b, cls, param, extra=None, **kw):
    a, c, same, xml = _run(cls, param, b, extra)
    ok = same and ((a is True and c is True) if b else (a in (False, None) and c in (False, None)))
    return (not ok), f"{cls}({param}={b!r}): property {a!r}, after re-parse {c!r}: {xml}"


def attr_true_string(k, cls, param, extra=None, **kw):
    s = ("true", "false")[k]
    return attr_str(s, cls, param, extra)


def text_content_arg(s, **kw):
    from odfdo.list import ListItem
    li = ListItem(s)
    return li.text_content != s, f"ListItem({s!r}).text_content == {li.text_content!r}"


def attr_joint(s, with_body, cls, names, elems, extra=None, **kw):
    from odfdo import Paragraph
    C = _cls(cls)
    args = {p: s + chr(97 + i) for i, p in enumerate(names)}
    if with_body:
        for p in elems:
            args[p] = Paragraph("body")
    args.update(extra or {})
    e = C(**args)
    again = Element.from_tag(e.serialize(with_ns=True))
    bad = [(p, getattr(e, p), getattr(again, p)) for i, p in enumerate(names) if getattr(e, p) != s + chr(97 + i) or getattr(again, p) != s + chr(97 + i)]
    return bool(bad) or type(again) is not type(e), f"{cls}(**{ {k: (v if isinstance(v, str) else '<element>') for k, v in args.items()} }): wrong (param, property, after re-parse): {bad}: {e.serialize()}"
