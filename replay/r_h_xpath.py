"""Replays of h_xpath counterexamples on real lxml: store an object under the identifier (plus
decoys under different identifiers), look it up, expect exactly that object and no exception."""
from odfdo import Element
from odfdo.body import Body
from odfdo.utils.xpath_query import make_xpath_query

# parallel to h_xpath.LOOKUPS: (caller, tag, attribute, extra attributes)
SPECS = [
    (lambda c, s: c.get_table(name=s), "table:table", "table:name", {}),
    (lambda c, s: c.get_frame(name=s), "draw:frame", "draw:name", {}),
    (lambda c, s: c.get_draw_page(name=s), "draw:page", "draw:name", {}),
    (lambda c, s: c.get_note(note_id=s), "text:note", "text:id", {}),
    (lambda c, s: c.get_variable_decl(s), "text:variable-decl", "text:name", {}),
    (lambda c, s: c.get_variable_set(s), "text:variable-set", "text:name", {}),
    (lambda c, s: c.get_user_field_decl(s), "text:user-field-decl", "text:name", {}),
    (lambda c, s: c.get_user_defined(s), "text:user-defined", "text:name", {}),
    (lambda c, s: c.get_bookmark(name=s), "text:bookmark", "text:name", {}),
    (lambda c, s: c.get_bookmark_start(name=s), "text:bookmark-start", "text:name", {}),
    (lambda c, s: c.get_bookmark_end(name=s), "text:bookmark-end", "text:name", {}),
    (lambda c, s: c.get_reference_mark_single(name=s), "text:reference-mark", "text:name", {}),
    (lambda c, s: c.get_reference_mark_start(name=s), "text:reference-mark-start", "text:name", {}),
    (lambda c, s: c.get_reference_mark_end(name=s), "text:reference-mark-end", "text:name", {}),
    (lambda c, s: c.get_annotation(name=s), "office:annotation", "office:name", {}),
    (lambda c, s: c.get_annotation_end(name=s), "office:annotation-end", "office:name", {}),
    (lambda c, s: c.get_text_change_deletion(idx=s), "text:change", "text:change-id", {}),
    (lambda c, s: c.get_text_change_start(idx=s), "text:change-start", "text:change-id", {}),
    (lambda c, s: c.get_style("paragraph", s), "style:style", "style:name", {"style:family": "paragraph"}),
    (lambda c, s: c.get_style("paragraph", display_name=s), "style:style", "style:display-name", {"style:family": "paragraph", "style:name": "n"}),
]


def _body_with(tag, attr, extra, names):
    body = Element.from_tag("office:text")
    out = []
    for nm in names:
        e = Element.from_tag(f"<{tag}/>")
        for k, v in extra.items():
            e.set_attribute(k, v)
        e._Element__element.set(_clark(attr), nm)  # store the raw identifier, no API processing
        body._Element__element.append(e._Element__element)
        out.append(e)
    return body, out


def _clark(qname):
    from odfdo.element import _get_lxml_tag
    return _get_lxml_tag(qname)


def lookup(k, name, **kw):
    fn, tag, attr, extra = SPECS[k]
    decoys = [name + "x", "x" + name, "zz"]
    body, els = _body_with(tag, attr, extra, [d for d in decoys[:2]] + [name] + decoys[2:])
    try:
        got = fn(body, name)
    except Exception as e:  # a lookup never fails with an internal query error
        return True, f"lookup {tag}[@{attr}={name!r}] raised {type(e).__name__}: {e}"
    if got is None:
        return True, f"lookup {tag}[@{attr}={name!r}] found nothing"
    found = got._Element__element.get(_clark(attr))
    return found != name, f"lookup {tag}[@{attr}={name!r}] returned the object named {found!r}"


def direct(name, other, **kw):
    body, els = _body_with("text:note", "text:id", {"text:note-class": other} if other else {}, [name + "x", name, "zz"])
    q = make_xpath_query("descendant::text:note", text_id=name, note_class=other)
    try:
        res = body.get_elements(q)
    except Exception as e:
        return True, f"query {q!r} raised {type(e).__name__}: {e}"
    ids = [r.get_attribute("text:id") for r in res]
    return ids != [name], f"query {q!r} selected {ids!r}, expected [{name!r}]"


def position(position, **kw):
    items = ["a", "b", "c", "d"]
    body = Element.from_tag("office:text")
    for nm in items:
        e = Element.from_tag("<text:p/>")
        e.text = nm
        body._Element__element.append(e._Element__element)
    q = make_xpath_query("text:p", position=position)
    got = [str(r.text) for r in body.get_elements(q)]
    try:
        exp = [items[position]]
    except IndexError:
        exp = []
    return got != exp, f"{q!r} selected {got}, python indexing gives {exp}"


def named_range(name, **kw):
    body, els = _body_with("table:named-range", "table:name", {}, [name + "x", name])
    ne = Element.from_tag("<table:named-expressions/>")
    for ch in list(body._Element__element):
        ne._Element__element.append(ch)
    body._Element__element.append(ne._Element__element)
    try:
        got = body.get_named_range(name)
    except Exception as e:
        return True, f"get_named_range({name!r}) raised {type(e).__name__}: {e}"
    if got is None:
        return True, "not found"
    return got.get_attribute("table:name") != name, f"returned {got.get_attribute('table:name')!r}"


def manifest(path, which, **kw):
    from odfdo import Document
    m = Document("text").get_part("manifest")
    entry = m.make_file_entry("placeholder", "text/x")
    entry._Element__element.set(_clark("manifest:full-path"), path)
    m.root._Element__element.append(entry._Element__element)
    try:
        if which == 0:
            got = m._file_entry(path).get_attribute("manifest:media-type")
        else:
            got = m.get_media_type(path)
    except Exception as e:
        return True, f"manifest lookup of {path!r} raised {type(e).__name__}: {e}"
    return got != "text/x", f"manifest lookup of {path!r} gave media type {got!r}"


# parallel to h_xpath.TWICE + ONCE_MORE
SPECS2 = [
    (lambda c, s: c.get_reference_mark(name=s), ["text:reference-mark", "text:reference-mark-start"], "text:name"),
    (lambda c, s: c.get_text_change(idx=s), ["text:change", "text:change-start"], "text:change-id"),
    (lambda c, s: (c.get_references(name=s) or [None])[0], ["text:reference-ref"], "text:ref-name"),
]


def lookup_twice(name, k2=0, **kw):
    fn, tags, attr = SPECS2[k2]
    notes = []
    for target in tags:
        # decoys of EVERY tag of the union under other names come first in the document
        body = Element.from_tag("office:text")
        for tg in tags:
            for nm in (name + "x", "zz"):
                e = Element.from_tag(f"<{tg}/>")
                e._Element__element.set(_clark(attr), nm)
                body._Element__element.append(e._Element__element)
        e = Element.from_tag(f"<{target}/>")
        e._Element__element.set(_clark(attr), name)
        body._Element__element.append(e._Element__element)
        try:
            got = fn(body, name)
        except Exception as ex:  # noqa: BLE001
            return True, f"lookup of {name!r} raised {type(ex).__name__}: {ex}"
        if got is None or got._Element__element.get(_clark(attr)) != name or got.tag != target:
            notes.append(f"lookup of {target} named {name!r} returned {None if got is None else (got.tag, got._Element__element.get(_clark(attr)))}")
    return bool(notes), "; ".join(notes) or "ok"


def referenced_text(name, **kw):
    from odfdo import Paragraph
    p = Paragraph("one two three")
    try:
        p.set_reference_mark(name, content="two")
        start = p.get_reference_mark_start(name=name)
        txt = start.referenced_text()
    except Exception as ex:  # noqa: BLE001
        return True, f"reference mark {name!r}: raised {type(ex).__name__}: {ex}"
    return txt != "two", f"referenced_text() of mark {name!r} gives {txt!r}, expected 'two'"


def document_table(name, **kw):
    from odfdo import Document, Table
    doc = Document("spreadsheet")
    doc.body.clear()
    for i, nm in enumerate(["first", name, "last"]):
        t = Table("tmp%d" % i, width=1, height=1, style="ta%d" % i)
        t._Element__element.set(_clark("table:name"), nm)
        doc.body.append(t)
    try:
        t = doc._get_table(name)
    except Exception as ex:  # noqa: BLE001
        return True, f"Document._get_table({name!r}) raised {type(ex).__name__}: {ex}"
    found = None if t is None else t._Element__element.get(_clark("table:name"))
    return found != name, f"Document._get_table({name!r}) gives the table named {found!r}"


def file_entry_attrs(path, media, **kw):
    from odfdo.manifest import Manifest
    try:
        e = Manifest.make_file_entry(path, media)
    except Exception as ex:  # noqa: BLE001
        return True, f"make_file_entry({path!r}, {media!r}) raised {type(ex).__name__}: {ex}"
    got = (e.get_attribute_string("manifest:full-path"), e.get_attribute_string("manifest:media-type"))
    return got != (path, media), f"make_file_entry({path!r}, {media!r}) carries {got!r}"
