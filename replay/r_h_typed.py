"""Replays of h_typed counterexamples on real lxml with the REAL codecs: the value of each Python type
must come back equal through the same carrier."""
from datetime import date, datetime, timedelta
from decimal import Decimal

from odfdo import Cell, Document, Element

VALUES = {"date": date(2024, 1, 31), "datetime": datetime(2024, 1, 31, 10, 5, 6), "timedelta": timedelta(hours=1, seconds=5)}


def _norm(x):
    # Date.decode is documented to return a datetime: a plain date comes back as midnight of that day.
    # The obligations judge the DISPATCH (right codec, right attribute), so that is not counted here.
    if isinstance(x, date) and not isinstance(x, datetime):
        return datetime(x.year, x.month, x.day)
    return x


def _fresh(el):
    return Element.from_tag(el.serialize(with_ns=True))


def cell_temporal(kind="date", **kw):
    v = VALUES[kind]
    c = Cell(v)
    c2 = Cell()
    c2.value = v
    c3 = Cell()
    c3.set_value(v)
    got = [c.value, c.get_value(), _fresh(c).value, c2.value, c3.get_value()]
    return any(_norm(g) != _norm(v) for g in got), f"Cell({v!r}) read back as {got!r}; {c.serialize()}"


def meta_temporal(kind="date", **kw):
    v = VALUES[kind]
    doc = Document("text")
    meta = doc.get_part("meta")
    meta.set_user_defined_metadata("k", v)
    got = meta.get_user_defined_metadata()["k"]
    return _norm(got) != _norm(v), f"user-defined metadata {v!r} read back as {got!r}"


def cell_string(s, **kw):
    c = Cell(s)
    c2 = Cell()
    c2.value = s
    got = [c.value, c.get_value(get_type=True), _fresh(c).value, c2.value]
    ok = got[0] == s and got[1] == (s, "string") and got[2] == s and got[3] == s
    return (not ok), f"Cell({s!r}) read back as {got!r}"


def cell_simple(b, **kw):
    cb = Cell(b)
    ok = cb.value is b and cb.type == "boolean" and _fresh(cb).value is b
    for n in (0, -3, 12, 10 ** 20, 10 ** 30, -(2 ** 100)):
        cn = Cell(n)
        ok = ok and cn.value == n and isinstance(cn.value, int) and not isinstance(cn.value, bool)
    ok = ok and Cell(Decimal("1.50")).value == Decimal("1.50") and Cell(2.5).value == Decimal("2.5") and Cell(None).value is None
    return (not ok), "simple values"


def meta_overwrite(first, kind="date", **kw):
    v = VALUES[kind]
    doc = Document("text")
    meta = doc.get_part("meta")
    meta.set_user_defined_metadata("k", (True, 7, "txt", timedelta(seconds=1))[first])
    meta.set_user_defined_metadata("k", v)
    try:
        got = meta.get_user_defined_metadata()
    except Exception as e:  # noqa: BLE001
        return True, f"reading back raised {e!r}"
    return _norm(got.get("k")) != _norm(v) or len(got) != 1, f"entry overwritten with {v!r} reads back as {got!r}"


import odfdo.variable as V_  # noqa: E402

CARRIERS = {"varset": V_.VarSet, "varget": V_.VarGet, "userfielddecl": V_.UserFieldDecl, "userfieldget": V_.UserFieldGet,
            "userdefined": V_.UserDefined}
LOOKUP = {"varset": "get_variable_set_value", "userfielddecl": "get_user_field_value", "userdefined": "get_user_defined_value"}


def _in_body(e):
    body = Element.from_tag("office:text")
    body.append(e)
    return body


def _carrier(v, carrier, other, norm=_norm):
    cls = CARRIERS[carrier]
    e = cls("nm", v)
    got = [e.get_value(), _fresh(e).get_value()]
    if carrier in LOOKUP:
        got.append(getattr(_in_body(e), LOOKUP[carrier])("nm"))
    names = [e.name]
    if "set_value" in cls.__dict__:
        e2 = cls("nm", other)
        e2.set_value(v)
        got.append(e2.get_value())
        names.append(e2.name)
    bad = any(norm(g) != norm(v) or (isinstance(v, (bool, str)) and type(g) is not type(v)) for g in got) or any(n != "nm" for n in names)
    return bad, f"{cls.__name__}('nm', {v!r}) read back as {got!r}, names {names!r}"


def carrier_temporal(kind="date", carrier="varset", **kw):
    return _carrier(VALUES[kind], carrier, "txt")


def carrier_string(s, carrier="varset", **kw):
    return _carrier(s, carrier, True)


def carrier_simple(b, carrier="varset", **kw):
    for v in (b, 0, -3, 12, 10 ** 20, 10 ** 30, -(2 ** 100), Decimal("1.50"), Decimal("1E+40"), None):
        bad, msg = _carrier(v, carrier, "txt")
        if bad:
            return bad, msg
    return False, "simple values"
