"""Replays of h_nrange counterexamples on real lxml."""
from odfdo import Element
from odfdo.table import NamedRange, _table_name_check

APOS = chr(39)
NAMES = ["ab", "a b", "b a", "a" + APOS + "b", "a b" + APOS + "c", "a" + APOS + APOS + "b", " a b ", "é a", "x y z"]


def _rt(tn, x, y, z, t):
    try:
        tn2 = _table_name_check(tn)
    except ValueError:
        return False, "name refused by the name check"
    nr = NamedRange("nr", (x, y, z, t), tn)
    xml = nr.serialize(with_ns=True)
    again = Element.from_tag(xml)
    ok = again.table_name == tn2 and again.crange == (x, y, z, t) and again.name == "nr" and type(again) is NamedRange
    ok = ok and again.serialize(with_ns=True) == xml
    return (not ok), f"NamedRange on table {tn2!r} area {(x, y, z, t)} written as {nr.get_attribute('table:cell-range-address')!r} read back as table {again.table_name!r} area {again.crange}; node rewritten: {again.serialize(with_ns=True) != xml}"


def nr_roundtrip_name(tn, **kw):
    return _rt(tn, 0, 0, 1, 1)


def nr_roundtrip_area(x, y, z, t, k, **kw):
    return _rt(("ab", "a b", "a" + APOS + "b")[k], x, y, z, t)


def nr_roundtrip_listed(k, x, y, **kw):
    return _rt(NAMES[k], x, y, x + 1, y + 1)


def nr_roundtrip_dotted(tn, x, y, **kw):
    return _rt(tn, x, y, x, y)
