"""Replays of h_nrange counterexamples on real lxml."""
from odfdo import Element
from odfdo.table import NamedRange, _table_name_check

APOS = chr(39)
NAMES = ["ab", "a b", "b a", "a" + APOS + "b", "a b" + APOS + "c", "a" + APOS + APOS + "b", " a b ", "é a", "x y z"]


def _rt(tn, x, y, z, t):
    try:
        tn2 = _table_name_check(tn)
    except ValueError:
        return False, "name refused by the name check"
    nr = NamedRange("nr", (x, y, z, t), tn)
    xml = nr.serialize(with_ns=True)
    again = Element.from_tag(xml)
    ok = again.table_name == tn2 and again.crange == (x, y, z, t) and again.name == "nr" and type(again) is NamedRange
    ok = ok and again.serialize(with_ns=True) == xml
    return (not ok), f"NamedRange on table {tn2!r} area {(x, y, z, t)} written as {nr.get_attribute('table:cell-range-address')!r} read back as table {again.table_name!r} area {again.crange}; node rewritten: {again.serialize(with_ns=True) != xml}"


def nr_roundtrip_name(tn, **kw):
    return _rt(tn, 0, 0, 1, 1)


def nr_roundtrip_area(x, y, z, t, k, **kw):
    return _rt(("ab", "a b", "a" + APOS + "b")[k], x, y, z, t)


def nr_roundtrip_listed(k, x, y, **kw):
    return _rt(NAMES[k], x, y, x + 1, y + 1)


def nr_roundtrip_dotted(tn, x, y, **kw):
    return _rt(tn, x, y, x, y)


def rename_updates_ranges(new, **kw):
    from odfdo import Document, Table
    try:
        new2 = _table_name_check(new)
    except ValueError:
        return False, "refused"
    doc = Document("spreadsheet")
    body = doc.body
    body.clear()
    t1, zz = Table("t1", width=3, height=3), Table("t", width=3, height=3)
    body.append(t1)
    body.append(zz)
    t1.set_named_range("rng_a", (0, 0, 1, 1))
    zz.set_named_range("rng_b", (1, 1, 2, 2))
    table = body.get_table(name="t1")
    table.name = new
    r1, r2 = body.get_named_range("rng_a"), body.get_named_range("rng_b")
    found = table.get_named_ranges(table_name=new2)
    ok = table.name == new2 and r1.table_name == new2 and r1.crange == (0, 0, 1, 1) and r2.table_name == "t" and len(found) == 1 and found[0].name == "rng_a"
    return (not ok), f"after renaming t1 to {new2!r}: r1 points to {r1.table_name!r} {r1.crange}, r2 to {r2.table_name!r}; ranges found for the new name: {[f.name for f in found]}"


def nr_read_is_pure(bx, by, x, y, **kw):
    from odfdo.utils.coordinates import digit_to_alpha
    rng = "$t1.$" + digit_to_alpha(x) + "$" + str(y + 1) + ":.$" + digit_to_alpha(x + 1) + "$" + str(y + 2)
    base = "$t1.$" + digit_to_alpha(bx) + "$" + str(by + 1)
    xml = f'<table:named-range table:name="rng" table:base-cell-address="{base}" table:cell-range-address="{rng}"/>'
    nr = Element.from_tag(xml)
    ok = nr.table_name == "t1" and nr.crange == (x, y, x + 1, y + 1) and nr.get_attribute("table:base-cell-address") == base and nr.get_attribute("table:cell-range-address") == rng
    return (not ok), f"named range stored with base {base} range {rng}: after wrapping base {nr.get_attribute('table:base-cell-address')!r} range {nr.get_attribute('table:cell-range-address')!r}, crange {nr.crange}"
