"""Replays of h_ws counterexamples on real lxml: the same string through the public Paragraph API."""
from lxml import etree

from odfdo import Paragraph

TEXT = "urn:oasis:names:tc:opendocument:xmlns:text:1.0"


def collapse_xml(node):
    """ODF 1.2 6.1.2 collapsing (consumer reading) applied to the parsed XML of a paragraph"""
    out = []
    state = {"last_space": True, "pending": False}

    def chars(s):
        for c in s or "":
            if c in " \t\n\r":
                if not state["last_space"]:
                    state["pending"] = True
                    state["last_space"] = True
            else:
                if state["pending"]:
                    out.append(" ")
                    state["pending"] = False
                out.append(c)
                state["last_space"] = False

    def elem(e):
        for ch in e:
            tag = etree.QName(ch).localname
            if tag in ("s", "tab", "line-break"):
                if state["pending"]:
                    out.append(" ")
                    state["pending"] = False
                out.append({"s": " " * int(ch.get("{%s}c" % TEXT, "1")), "tab": "\t", "line-break": "\n"}[tag])
                state["last_space"] = False
            else:
                chars(ch.text)
                elem(ch)
            chars(ch.tail)

    chars(node.text)
    elem(node)
    return "".join(out)


def _check(p, text):
    xml = p.serialize(with_ns=True)
    node = etree.fromstring(xml.encode())
    from odfdo import Element
    again = Element.from_tag(xml)
    ok = p.inner_text == text and again.inner_text == text and collapse_xml(node) == text
    return (not ok), f"text {text!r}: inner_text {p.inner_text!r}, reparsed {again.inner_text!r}, collapsed {collapse_xml(node)!r}, xml {p.serialize()}"


def ws_roundtrip(text):
    return _check(Paragraph(text), text)


ws_roundtrip5 = ws_roundtrip


def ws_tokens_wellformed(text):
    p = Paragraph(text)
    node = etree.fromstring(p.serialize(with_ns=True).encode())
    bad = False
    for t in [node.text] + [c.tail for c in node]:
        if t and ("\t" in t or "\n" in t or "  " in t):
            bad = True
    v, d = _check(p, text)
    return v or bad, d


def unformatted_ok(text):
    p = Paragraph(text, formatted=False)
    exp = ""
    blank = False
    for c in text:
        if c in " \t\n":
            if not blank:
                exp += " "
            blank = True
        else:
            exp += c
            blank = False
    return p.inner_text != exp, f"formatted=False {text!r}: {p.inner_text!r} expected {exp!r}"
