"""Replay of an E3 counterexample: the real Duration.encode / decode on the solver's duration."""
from datetime import timedelta

from odfdo.datatype import Duration


def duration(total_seconds, **kw):
    td = timedelta(seconds=total_seconds)
    text = Duration.encode(td)
    import re
    lex = re.fullmatch(r"-?PT(\d{2,})H(\d{2})M(\d{2})S", text)
    back = None
    try:
        back = Duration.decode(text)
    except Exception as e:  # noqa: BLE001
        back = repr(e)
    ok = lex is not None and back == td and (text.startswith("-") == (total_seconds < 0))
    if lex:
        ok = ok and int(lex.group(2)) < 60 and int(lex.group(3)) < 60
    return (not ok), f"Duration.encode({td!r}) = {text!r}; decoded back {back!r}"
