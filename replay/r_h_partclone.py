"""Replays of h_partclone counterexamples on a real text document."""
from odfdo import Document, Paragraph


def meta_clone(s, set_before, edit_clone, t, **kw):
    doc = Document("text")
    meta = doc.meta
    if set_before:
        meta.generator = "G" + s
    c = meta.clone
    born = c.root.serialize() == meta.root.serialize() and type(c) is type(meta)
    meta.set_generator_default()
    c.set_generator_default()
    same = c.generator == meta.generator and (not set_before or meta.generator == "G" + s)
    a, b = (c, meta) if edit_clone else (meta, c)
    before = b.root.serialize()
    a.title = "T" + t
    indep = b.root.serialize() == before and a.title == "T" + t
    return (not (born and same and indep)), f"equal at birth {born}; same behaviour after set_generator_default {same} (original {meta.generator!r}, clone {c.generator!r}); independent {indep}"


def content_clone(t, edit_clone, **kw):
    doc = Document("text")
    doc.body.clear()
    doc.body.append(Paragraph("x" + t))
    content = doc.content
    c = content.clone
    born = c.root.serialize() == content.root.serialize()
    a, b = (c, content) if edit_clone else (content, c)
    before = b.root.serialize()
    a.body.append(Paragraph("y"))
    indep = b.root.serialize() == before
    return (not (born and indep)), f"equal at birth {born}; independent {indep}"
