"""Replays of h_partclone counterexamples on a real text document."""
from odfdo import Document, Paragraph


def _ser_ok(part):
    from odfdo import Element
    return Element.from_tag(part.serialize().split(b"?>", 1)[1].decode()).serialize() == part.root.serialize()


def meta_clone(s, set_before, edit_clone, t, **kw):
    doc = Document("text")
    meta = doc.meta
    if set_before:
        meta.generator = "G" + s
    c = meta.clone
    born = c.root.serialize() == meta.root.serialize() and type(c) is type(meta)
    meta.set_generator_default()
    c.set_generator_default()
    same = c.generator == meta.generator and (not set_before or meta.generator == "G" + s)
    a, b = (c, meta) if edit_clone else (meta, c)
    before = b.root.serialize()
    a.title = "T" + t
    indep = b.root.serialize() == before and a.title == "T" + t and _ser_ok(c) and _ser_ok(meta)
    return (not (born and same and indep)), f"equal at birth {born}; same behaviour after set_generator_default {same} (original {meta.generator!r}, clone {c.generator!r}); independent {indep}"


def content_clone(t, edit_clone, **kw):
    doc = Document("text")
    doc.body.clear()
    doc.body.append(Paragraph("x" + t))
    content = doc.content
    c = content.clone
    born = c.root.serialize() == content.root.serialize()
    a, b = (c, content) if edit_clone else (content, c)
    before = b.root.serialize()
    a.body.append(Paragraph("y"))
    indep = b.root.serialize() == before and _ser_ok(c) and _ser_ok(content)
    return (not (born and indep)), f"equal at birth {born}; independent and serialize() = tree in memory: {indep}"


def _state(doc):
    out = {}
    for p in ("content.xml", "styles.xml", "meta.xml", "settings.xml", "META-INF/manifest.xml"):
        out[p] = doc.get_part(p).root.serialize()
    for p in doc.container.parts:
        if p in out or p.endswith("/"):
            continue
        try:
            out[p] = doc.container.get_part(p)
        except ValueError:
            pass  # marked as deleted
    return out


def _diff(a, b):
    return sorted(k for k in set(a) | set(b) if a.get(k) != b.get(k))


def doc_clone(touch_body, touch_styles, touch_meta, add_blob, mask=0, from_file=False, t="ab", **kw):
    del_blob, edit_clone = bool(mask & 1), bool(mask & 2)
    import io
    from odfdo import Style
    from odfdo.document import Blob
    doc = Document("text")
    if from_file:  # a document opened from a zip on disk (Container.clone then reads the zip)
        import os
        import tempfile
        d = tempfile.mkdtemp()
        path = os.path.join(d, "x.odt")
        doc.save(path)
        doc = Document(path)
    doc.set_part("Pictures/old.png", b"old")
    doc.manifest.add_full_path("Pictures/old.png", "image/png")
    if touch_body:
        doc.body.append(Paragraph("x" + t))
    if touch_styles:
        doc.insert_style(Style("paragraph", name="S" + t))
    if touch_meta:
        doc.meta.title = "T" + t
    if add_blob:
        b = Blob()
        b.name, b.content, b.mime_type = "a.png", b"data", "image/png"
        doc._add_binary_part(b)
    if del_blob:
        doc.del_part("Pictures/old.png")
    before = _state(doc)
    c = doc.clone
    notes = []
    if _state(doc) != before:
        notes.append(f"cloning changed the original: {_diff(_state(doc), before)}")
    if _state(c) != before:
        notes.append(f"clone differs at birth in {_diff(_state(c), before)}")
    a, b2 = (c, doc) if edit_clone else (doc, c)
    a.body.append(Paragraph("y"))
    a.meta.title = "other"
    a.manifest.add_full_path("Pictures/z.png", "image/png")
    a.container.set_part("Pictures/z.png", b"z")
    if _state(b2) != before:
        notes.append(f"an edit of one is seen in the other: {_diff(_state(b2), before)}")
    return bool(notes), "; ".join(notes) or "equal at birth, original untouched, independent"
