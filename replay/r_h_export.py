"""Replay of h_export counterexamples on real lxml."""
from odfdo import Cell, Row, Table


def export_pure(c_empty, r_empty, which, **kw):
    t = Table("t")
    r = Row()
    r.append_cell(Cell(1), clone=False)
    if c_empty:
        r.append_cell(Cell(None, repeated=c_empty), clone=False)
    t.append_row(r, clone=False)
    if r_empty:
        r2 = Row()
        r2.append_cell(Cell(None, repeated=1 + c_empty), clone=False)
        r2.repeated = r_empty
        t.append_row(r2, clone=False)
    before, size = t.serialize(), t.size
    ctx = {"rst_mode": True, "document": None, "footnotes": [], "endnotes": [], "annotations": [], "images": [], "img_counter": 0, "no_img_level": 0}
    fn = [t._md_format, t.get_formatted_text, lambda: t.get_formatted_text(ctx), lambda: str(t), t.to_csv][which]
    a = fn()
    b = fn()
    ok = t.serialize() == before and t.size == size and a == b
    return (not ok), f"export #{which} on a table of size {size}: size afterwards {t.size}, XML unchanged {t.serialize() == before}, same answer twice {a == b}"


def text_export_twice(n_notes, header, simple, t, **kw):
    from odfdo import Header, Note, Paragraph

    def build():
        e = Header(1, "T" + t) if header else Paragraph("T" + t)
        for i in range(n_notes):
            e.append(Note(note_class="footnote", note_id="n%d" % i, body="note"))
            e.append("x")
        return e

    e1, e2 = build(), build()
    xml = e1.serialize()
    a, b, c = e1.get_formatted_text(simple=simple), e1.get_formatted_text(simple=simple), e2.get_formatted_text(simple=simple)
    return not (a == b == c and e1.serialize() == xml), f"first {a!r}, second {b!r}, identical element built afresh {c!r}; element unchanged {e1.serialize() == xml}"
