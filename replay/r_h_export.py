"""Replay of h_export counterexamples on real lxml."""
from odfdo import Cell, Row, Table


def export_pure(c_empty, r_empty, which, **kw):
    t = Table("t")
    r = Row()
    r.append_cell(Cell(1), clone=False)
    if c_empty:
        r.append_cell(Cell(None, repeated=c_empty), clone=False)
    t.append_row(r, clone=False)
    if r_empty:
        r2 = Row()
        r2.append_cell(Cell(None, repeated=1 + c_empty), clone=False)
        r2.repeated = r_empty
        t.append_row(r2, clone=False)
    before, size = t.serialize(), t.size
    ctx = {"rst_mode": True, "document": None, "footnotes": [], "endnotes": [], "annotations": [], "images": [], "img_counter": 0, "no_img_level": 0}
    fn = [t._md_format, t.get_formatted_text, lambda: t.get_formatted_text(ctx), lambda: str(t), t.to_csv][which]
    a = fn()
    b = fn()
    ok = t.serialize() == before and t.size == size and a == b
    return (not ok), f"export #{which} on a table of size {size}: size afterwards {t.size}, XML unchanged {t.serialize() == before}, same answer twice {a == b}"
