"""Replay for pure-kernel obligations (no lxml involved, nothing patched): the harness function
itself is executed concretely, outside CrossHair, on the solver's inputs against the real code."""
import importlib


def call(_module, _func, **kw):
    m = importlib.import_module(_module)
    try:
        r = getattr(m, _func)(**kw)
    except Exception as e:
        return True, f"{_module}.{_func}({kw}) raised {type(e).__name__}: {e}"
    return (not r), f"{_module}.{_func}({kw}) returned {r!r}"
